// C18 — JSON encode/decode round-trips and agrees with encoding/json.
package c18

import (
	"bytes"
	"context"
	gojson "encoding/json"
	"fmt"
	"math"
	"os"
	"path/filepath"
	"sort"
	"strconv"
	"strings"
	"testing"
	"time"
	"unicode/utf8"

	"github.com/d5/tengo/v2"
	"github.com/d5/tengo/v2/stdlib"
	tjson "github.com/d5/tengo/v2/stdlib/json"
	"pgregory.net/rapid"

	"verifharness/ev"
	"verifharness/tv"
)

func TestMain(m *testing.M) { ev.Main(m, "C18") }

const maxInput = 4096 // bytes; keeps nesting far below encoding/json's 10000-level cap

// ---------- payloads ----------

type encPayload struct {
	Value  *tv.Spec `json:"value"`
	Script bool     `json:"script"`
}

type decPayload struct {
	Hex    string `json:"hex"`
	Text   string `json:"text"` // echo
	Script bool   `json:"script"`
	AsStr  bool   `json:"as_string"`
}

// ---------- safe wrappers ----------

// "never panics" includes "returns": both wrappers run the call on a goroutine
// of its own and report a call that has not returned after hangLimit (values
// and texts are small: a call takes microseconds, milliseconds under load) the
// as a failure that ends the shard at once (ev.FailNow: the goroutine of a call
// that really spins cannot be stopped and would starve the shrinker).
const hangLimit = 90 * time.Second

type hung string

func safeEncode(v tengo.Object) (b []byte, err error, pan interface{}) {
	type res struct {
		b   []byte
		err error
		pan interface{}
	}
	ch := make(chan res, 1)
	go func() {
		var r res
		defer func() {
			if x := recover(); x != nil {
				r.pan = x
			}
			ch <- r
		}()
		r.b, r.err = tjson.Encode(v)
	}()
	select {
	case r := <-ch:
		return r.b, r.err, r.pan
	case <-time.After(hangLimit):
		// the spinning goroutine cannot be stopped and would starve every
		// further case (and the shrinker): record the value and end the shard
		ev.FailNow("TestEncodeTotal", encPayload{Value: tv.FromObject(v)}, fmt.Sprintf("Encode(%s) did not return within %v", tv.Describe(v), hangLimit))
		return nil, nil, hung("unreachable")
	}
}

func safeDecode(b []byte) (o tengo.Object, err error, pan interface{}) {
	type res struct {
		o   tengo.Object
		err error
		pan interface{}
	}
	ch := make(chan res, 1)
	go func() {
		var r res
		defer func() {
			if x := recover(); x != nil {
				r.pan = x
			}
			ch <- r
		}()
		r.o, r.err = tjson.Decode(b)
	}()
	select {
	case r := <-ch:
		return r.o, r.err, r.pan
	case <-time.After(hangLimit):
		ev.FailNow("TestDecodeBytes", decPayload{Hex: fmt.Sprintf("%x", b), Text: strconv.QuoteToASCII(string(b))}, fmt.Sprintf("Decode(%q) did not return within %v", b, hangLimit))
		return nil, nil, hung("unreachable")
	}
}

func goDecode(b []byte) (interface{}, error) {
	dec := gojson.NewDecoder(bytes.NewReader(b))
	dec.UseNumber()
	var g interface{}
	if err := dec.Decode(&g); err != nil {
		return nil, err
	}
	return g, nil
}

func isIntLiteral(s string) bool { return !strings.ContainsAny(s, ".eE") }

// ---------- comparers ----------

// sameAsGo: tengo value v (what was encoded) against Go's reading g of the
// encoding: Int <-> integer literal of that value, Float <-> number with that
// float64 value, String, Bool, Undefined<->null, containers element-wise.
func sameAsGo(v tengo.Object, g interface{}) string {
	switch x := v.(type) {
	case *tengo.Int:
		n, ok := g.(gojson.Number)
		if !ok {
			return fmt.Sprintf("int %d read by Go as %T", x.Value, g)
		}
		if !isIntLiteral(string(n)) {
			return fmt.Sprintf("int %d encoded as non-integer literal %s", x.Value, n)
		}
		i, err := strconv.ParseInt(string(n), 10, 64)
		if err != nil || i != x.Value {
			return fmt.Sprintf("int %d read by Go as %s", x.Value, n)
		}
	case *tengo.Float:
		n, ok := g.(gojson.Number)
		if !ok {
			return fmt.Sprintf("float %v read by Go as %T", x.Value, g)
		}
		f, err := strconv.ParseFloat(string(n), 64)
		if err != nil || (f != x.Value) {
			return fmt.Sprintf("float %v read by Go as %s", x.Value, n)
		}
	case *tengo.String:
		s, ok := g.(string)
		if !ok || s != x.Value {
			return fmt.Sprintf("string %q read by Go as %#v", x.Value, g)
		}
	case *tengo.Bool:
		b, ok := g.(bool)
		if !ok || b == x.IsFalsy() {
			return fmt.Sprintf("bool %v read by Go as %#v", !x.IsFalsy(), g)
		}
	case *tengo.Undefined:
		if g != nil {
			return fmt.Sprintf("undefined read by Go as %#v", g)
		}
	case *tengo.Array:
		return seqAsGo(x.Value, g)
	case *tengo.ImmutableArray:
		return seqAsGo(x.Value, g)
	case *tengo.Map:
		return mapAsGo(x.Value, g)
	case *tengo.ImmutableMap:
		return mapAsGo(x.Value, g)
	default:
		return fmt.Sprintf("unexpected type %T", v)
	}
	return ""
}

func seqAsGo(xs []tengo.Object, g interface{}) string {
	a, ok := g.([]interface{})
	if !ok || len(a) != len(xs) {
		return fmt.Sprintf("array of %d read by Go as %T", len(xs), g)
	}
	for i := range xs {
		if d := sameAsGo(xs[i], a[i]); d != "" {
			return fmt.Sprintf("[%d]: %s", i, d)
		}
	}
	return ""
}

func mapAsGo(m map[string]tengo.Object, g interface{}) string {
	a, ok := g.(map[string]interface{})
	if !ok || len(a) != len(m) {
		return fmt.Sprintf("map of %d read by Go as %T (len %d)", len(m), g, len(a))
	}
	for k, v := range m {
		gv, ok := a[k]
		if !ok {
			return fmt.Sprintf("key %q missing in Go's reading", k)
		}
		if d := sameAsGo(v, gv); d != "" {
			return fmt.Sprintf("[%q]: %s", k, d)
		}
	}
	return ""
}

// decodedAsGo: tengo's decoding d of a text against Go's decoding g of the
// same text: numbers typed int iff the literal has no fraction/exponent.
func decodedAsGo(d tengo.Object, g interface{}) string {
	if d == nil {
		return "decoder returned Go nil object"
	}
	switch x := g.(type) {
	case nil:
		if d != tengo.UndefinedValue {
			return "null decoded as " + tv.Describe(d)
		}
	case bool:
		if (x && d != tengo.TrueValue) || (!x && d != tengo.FalseValue) {
			return fmt.Sprintf("%v decoded as %s", x, tv.Describe(d))
		}
	case string:
		s, ok := d.(*tengo.String)
		if !ok || s.Value != x {
			return fmt.Sprintf("string %q decoded as %s", x, tv.Describe(d))
		}
	case gojson.Number:
		if isIntLiteral(string(x)) {
			n, err := strconv.ParseInt(string(x), 10, 64)
			if err != nil {
				return "" // excluded before; defensive
			}
			i, ok := d.(*tengo.Int)
			if !ok || i.Value != n {
				return fmt.Sprintf("integer literal %s decoded as %s", x, tv.Describe(d))
			}
		} else {
			f, err := strconv.ParseFloat(string(x), 64)
			if err != nil {
				return ""
			}
			fl, ok := d.(*tengo.Float)
			if !ok || math.Float64bits(fl.Value) != math.Float64bits(f) {
				return fmt.Sprintf("float literal %s decoded as %s", x, tv.Describe(d))
			}
		}
	case []interface{}:
		a, ok := d.(*tengo.Array)
		if !ok || len(a.Value) != len(x) {
			return fmt.Sprintf("array of %d decoded as %s", len(x), tv.Describe(d))
		}
		for i := range x {
			if r := decodedAsGo(a.Value[i], x[i]); r != "" {
				return fmt.Sprintf("[%d]: %s", i, r)
			}
		}
	case map[string]interface{}:
		m, ok := d.(*tengo.Map)
		if !ok || len(m.Value) != len(x) {
			return fmt.Sprintf("object of %d keys decoded as %s", len(x), tv.Describe(d))
		}
		for k, gv := range x {
			dv, ok := m.Value[k]
			if !ok {
				return fmt.Sprintf("key %q missing", k)
			}
			if r := decodedAsGo(dv, gv); r != "" {
				return fmt.Sprintf("[%q]: %s", k, r)
			}
		}
	}
	return ""
}

// outOfClaim reports number literals that the property leaves out for
// arbitrary text: integer literals beyond int64 and float literals beyond
// float64.
func outOfClaim(g interface{}) string {
	switch x := g.(type) {
	case gojson.Number:
		if isIntLiteral(string(x)) {
			if _, err := strconv.ParseInt(string(x), 10, 64); err != nil {
				return "integer literal beyond int64"
			}
		} else if _, err := strconv.ParseFloat(string(x), 64); err != nil {
			return "float literal beyond float64"
		}
	case []interface{}:
		for _, e := range x {
			if r := outOfClaim(e); r != "" {
				return r
			}
		}
	case map[string]interface{}:
		keys := make([]string, 0, len(x))
		for k := range x {
			keys = append(keys, k)
		}
		sort.Strings(keys)
		for _, k := range keys {
			if r := outOfClaim(x[k]); r != "" {
				return r
			}
		}
	}
	return ""
}

// roundTripEq: original v against decode(encode(v)) modulo the language's
// int/float identification (a float with integral value may come back as the
// int of the same value) and immutable->mutable containers.
func roundTripEq(v, d tengo.Object) string {
	if d == nil {
		return "Go nil"
	}
	switch x := v.(type) {
	case *tengo.Int:
		if i, ok := d.(*tengo.Int); ok && i.Value == x.Value {
			return ""
		}
	case *tengo.Float:
		switch y := d.(type) {
		case *tengo.Float:
			if y.Value == x.Value {
				return ""
			}
		case *tengo.Int:
			if float64(y.Value) == x.Value && x.Value == math.Trunc(x.Value) {
				return ""
			}
		}
	case *tengo.String:
		if s, ok := d.(*tengo.String); ok && s.Value == x.Value {
			return ""
		}
	case *tengo.Bool:
		if d == v {
			return ""
		}
	case *tengo.Undefined:
		if d == tengo.UndefinedValue {
			return ""
		}
	case *tengo.Array:
		return rtSeq(x.Value, d)
	case *tengo.ImmutableArray:
		return rtSeq(x.Value, d)
	case *tengo.Map:
		return rtMap(x.Value, d)
	case *tengo.ImmutableMap:
		return rtMap(x.Value, d)
	}
	return fmt.Sprintf("%s came back as %s", tv.Describe(v), tv.Describe(d))
}

func rtSeq(xs []tengo.Object, d tengo.Object) string {
	a, ok := d.(*tengo.Array)
	if !ok || len(a.Value) != len(xs) {
		return fmt.Sprintf("array of %d came back as %s", len(xs), tv.Describe(d))
	}
	for i := range xs {
		if r := roundTripEq(xs[i], a.Value[i]); r != "" {
			return fmt.Sprintf("[%d]: %s", i, r)
		}
	}
	return ""
}

func rtMap(m map[string]tengo.Object, d tengo.Object) string {
	a, ok := d.(*tengo.Map)
	if !ok || len(a.Value) != len(m) {
		return fmt.Sprintf("map of %d came back as %s", len(m), tv.Describe(d))
	}
	for k, v := range m {
		dv, ok := a.Value[k]
		if !ok {
			return fmt.Sprintf("key %q lost", k)
		}
		if r := roundTripEq(v, dv); r != "" {
			return fmt.Sprintf("[%q]: %s", k, r)
		}
	}
	return ""
}

// ---------- script path ----------

var jsonMods = stdlib.GetModuleMap("json")

func runScript(src string, inputs map[string]tengo.Object) (map[string]tengo.Object, error) {
	s := tengo.NewScript([]byte(src))
	s.SetImports(jsonMods)
	for k, v := range inputs {
		if err := s.Add(k, v); err != nil {
			return nil, err
		}
	}
	c, err := s.Compile()
	if err != nil {
		return nil, err
	}
	ctx, cancel := context.WithTimeout(context.Background(), 20*time.Second)
	defer cancel()
	done := make(chan error, 1)
	go func() { done <- c.RunContext(ctx) }()
	select {
	case err := <-done:
		if err != nil {
			return nil, err
		}
	case <-time.After(20*time.Second + hangLimit):
		// a builtin that never returns: the VM cannot be aborted inside it
		return nil, fmt.Errorf("RunContext did not return %v after its context expired", hangLimit)
	}
	out := map[string]tengo.Object{}
	for _, v := range c.GetAll() {
		out[v.Name()] = v.Object()
	}
	return out, nil
}

// ---------- oracle A ----------

func features(v tengo.Object, depth int, f map[string]bool, maxd *int) {
	if depth > *maxd {
		*maxd = depth
	}
	switch x := v.(type) {
	case *tengo.String:
		for i := 0; i < len(x.Value); i++ {
			c := x.Value[i]
			if c < 0x20 || c == '"' || c == '\\' {
				f["esc"] = true
			}
			if c >= 0x80 {
				f["nonascii"] = true
			}
		}
	case *tengo.Float:
		a := math.Abs(x.Value)
		if a != 0 && (a < 1e-6 || a >= 1e21) {
			f["exp"] = true
		}
		if x.Value == math.Trunc(x.Value) {
			f["integral-float"] = true
		}
	case *tengo.Int:
		if x.Value > 1<<53 || x.Value < -(1<<53) {
			f["bigint"] = true
		}
	case *tengo.Array:
		for _, e := range x.Value {
			features(e, depth+1, f, maxd)
		}
	case *tengo.ImmutableArray:
		f["immutable"] = true
		for _, e := range x.Value {
			features(e, depth+1, f, maxd)
		}
	case *tengo.Map:
		for k, e := range x.Value {
			features(&tengo.String{Value: k}, depth+1, f, maxd)
			features(e, depth+1, f, maxd)
		}
	case *tengo.ImmutableMap:
		f["immutable"] = true
		for k, e := range x.Value {
			features(&tengo.String{Value: k}, depth+1, f, maxd)
			features(e, depth+1, f, maxd)
		}
	}
}

func checkEncode(t ev.TB, test string, v tengo.Object, script bool) {
	p := encPayload{Value: tv.FromObject(v), Script: script}
	var e []byte
	var d tengo.Object
	if script {
		out, err := runScript(`json := import("json"); e := json.encode(v); d := json.decode(e)`, map[string]tengo.Object{"v": v})
		if err != nil {
			ev.Fail(t, test, p, "script failed: %v", err)
			return
		}
		eb, ok := out["e"].(*tengo.Bytes)
		if !ok {
			ev.Fail(t, test, p, "json.encode(%s) returned %s", tv.Describe(v), tv.Describe(out["e"]))
			return
		}
		e, d = eb.Value, out["d"]
	} else {
		var err error
		var pan interface{}
		e, err, pan = safeEncode(v)
		if pan != nil {
			ev.Fail(t, test, p, "Encode panicked: %v", pan)
			return
		}
		if err != nil {
			ev.Fail(t, test, p, "Encode(%s) failed: %v", tv.Describe(v), err)
			return
		}
	}
	if !gojson.Valid(e) {
		ev.Fail(t, test, p, "encoding of %s is not valid JSON: %q", tv.Describe(v), e)
		return
	}
	g, err := goDecode(e)
	if err != nil {
		ev.Fail(t, test, p, "Go cannot read encoding %q: %v", e, err)
		return
	}
	if diff := sameAsGo(v, g); diff != "" {
		ev.Fail(t, test, p, "encoding %q of %s: %s", e, tv.Describe(v), diff)
		return
	}
	if !script {
		var pan interface{}
		d, err, pan = safeDecode(e)
		if pan != nil {
			ev.Fail(t, test, p, "Decode(%q) panicked: %v", e, pan)
			return
		}
		if err != nil {
			ev.Fail(t, test, p, "Decode of own encoding %q failed: %v", e, err)
			return
		}
	}
	if diff := roundTripEq(v, d); diff != "" {
		ev.Fail(t, test, p, "round trip through %q: %s", e, diff)
		return
	}
	if !v.Equals(d) {
		ev.Fail(t, test, p, "round trip through %q: %s does not Equal %s", e, tv.Describe(v), tv.Describe(d))
		return
	}
	f := map[string]bool{}
	maxd := 0
	features(v, 0, f, &maxd)
	nontrivial := maxd >= 2 || f["esc"] || f["exp"]
	cls := []string{"A:encode"}
	if script {
		cls = append(cls, "A:via-script")
	}
	for k := range f {
		cls = append(cls, "A:"+k)
	}
	if maxd >= 2 {
		cls = append(cls, "A:nested>=2")
	}
	ev.Case("A"+tv.Describe(v), nontrivial, cls...)
	if nontrivial && ev.WantSample() && len(e) < 300 && len(e) > 10 {
		ev.Sample(map[string]string{"kind": "encode", "value": tv.Describe(v), "encoding": string(e)})
	}
}

func genJSONValue() *rapid.Generator[tengo.Object] {
	return tv.GenObject(tv.Opts{JSONOnly: true, MaxDepth: 4, MaxLen: 4})
}

func TestEncodeRoundTrip(t *testing.T) {
	rapid.Check(t, func(t *rapid.T) {
		checkEncode(t, "TestEncodeRoundTrip", genJSONValue().Draw(t, "v"), false)
	})
}

func TestEncodeRoundTripScript(t *testing.T) {
	rapid.Check(t, func(t *rapid.T) {
		checkEncode(t, "TestEncodeRoundTripScript", genJSONValue().Draw(t, "v"), true)
	})
}

// Encoding values outside the JSON-representable set must not panic and
// whatever text comes back with a nil error must be valid JSON.
func TestEncodeTotal(t *testing.T) {
	rapid.Check(t, func(t *rapid.T) {
		v := tv.GenObject(tv.Opts{MaxDepth: 3, NoFuncs: true, NoErrors: true}).Draw(t, "v")
		p := encPayload{Value: tv.FromObject(v)}
		_, _, pan := safeEncode(v)
		if pan != nil {
			ev.Fail(t, "TestEncodeTotal", p, "Encode(%s) panicked: %v", tv.Describe(v), pan)
		}
		ev.Case("T"+tv.Describe(v), false, "A:total-any-type")
	})
}

// ---------- oracle B ----------

func checkDecode(t ev.TB, test string, b []byte, origin string, script, asStr bool) {
	p := decPayload{Hex: fmt.Sprintf("%x", b), Text: strconv.QuoteToASCII(string(b)), Script: script, AsStr: asStr}
	valid := gojson.Valid(b)
	var d tengo.Object
	var derr error
	if script {
		var in tengo.Object = &tengo.Bytes{Value: b}
		if asStr {
			in = &tengo.String{Value: string(b)}
		}
		out, err := runScript(`json := import("json"); d := json.decode(b)`, map[string]tengo.Object{"b": in})
		if err != nil {
			ev.Fail(t, test, p, "script failed: %v", err)
			return
		}
		d = out["d"]
		if e, ok := d.(*tengo.Error); ok {
			// a decoded JSON value is never an error value
			derr = fmt.Errorf("%s", tv.Describe(e.Value))
			d = nil
		}
	} else {
		var pan interface{}
		d, derr, pan = safeDecode(b)
		if pan != nil {
			ev.Fail(t, test, p, "Decode(%q) panicked: %v", b, pan)
			return
		}
	}
	if valid && derr != nil {
		ev.Fail(t, test, p, "valid JSON %q rejected: %v", b, derr)
		return
	}
	if !valid && derr == nil {
		ev.Fail(t, test, p, "invalid JSON %q accepted as %s", b, tv.Describe(d))
		return
	}
	cls := []string{"B:" + origin}
	if script {
		cls = append(cls, "B:via-script")
	}
	if !valid {
		nt := origin == "mutated"
		ev.Case("B"+string(b), nt, append(cls, "B:invalid")...)
		return
	}
	g, err := goDecode(b)
	if err != nil {
		// Valid() accepted but the decoder did not (number out of range):
		ev.Discard("Go decoder rejects valid text: " + firstWords(err.Error()))
		return
	}
	if r := outOfClaim(g); r != "" {
		ev.Discard(r)
		return
	}
	if diff := decodedAsGo(d, g); diff != "" {
		ev.Fail(t, test, p, "Decode(%q): %s", b, diff)
		return
	}
	s := string(b)
	nontrivial := strings.Contains(s, "\\") || hasFracExp(s)
	if strings.Contains(s, "\\u") {
		cls = append(cls, "B:unicode-escape")
	}
	if !utf8.Valid(b) {
		cls = append(cls, "B:invalid-utf8-in-string")
	}
	if hasFracExp(s) {
		cls = append(cls, "B:frac-or-exp")
	}
	ev.Case("B"+s, nontrivial, append(cls, "B:valid")...)
	if nontrivial && ev.WantSample() && len(b) < 200 && len(b) > 8 {
		ev.Sample(map[string]string{"kind": "decode", "text": strconv.QuoteToASCII(s), "decoded": tv.Describe(d)})
	}
}

func firstWords(s string) string {
	f := strings.Fields(s)
	if len(f) > 4 {
		f = f[:4]
	}
	return strings.Join(f, " ")
}

func hasFracExp(s string) bool {
	for i := 0; i+1 < len(s); i++ {
		if s[i] >= '0' && s[i] <= '9' && (s[i+1] == '.' || s[i+1] == 'e' || s[i+1] == 'E') {
			return true
		}
	}
	return false
}

var ws = []string{"", "", "", " ", "\n", "\t", "\r", "  ", " \n "}

func genWS(t *rapid.T) string { return rapid.SampledFrom(ws).Draw(t, "ws") }

func genNumberText(t *rapid.T) string {
	var sb strings.Builder
	if rapid.IntRange(0, 3).Draw(t, "neg") == 0 {
		sb.WriteByte('-')
	}
	switch rapid.IntRange(0, 5).Draw(t, "ik") {
	case 0:
		sb.WriteByte('0')
	case 1:
		sb.WriteString(rapid.SampledFrom([]string{"9223372036854775807", "9223372036854775808", "9223372036854775806",
			"18446744073709551616", "100000000000000000000", "9007199254740993", "1", "12", "4294967296"}).Draw(t, "ib"))
	default:
		sb.WriteString(strconv.FormatUint(rapid.Uint64().Draw(t, "iv")>>uint(rapid.IntRange(0, 63).Draw(t, "sh")), 10))
	}
	if rapid.IntRange(0, 2).Draw(t, "frac") == 0 {
		sb.WriteByte('.')
		sb.WriteString(rapid.StringMatching(`[0-9]{1,6}`).Draw(t, "fd"))
	}
	if rapid.IntRange(0, 2).Draw(t, "exp") == 0 {
		sb.WriteString(rapid.SampledFrom([]string{"e", "E"}).Draw(t, "e"))
		sb.WriteString(rapid.SampledFrom([]string{"", "+", "-"}).Draw(t, "es"))
		sb.WriteString(rapid.SampledFrom([]string{"0", "1", "2", "5", "05", "10", "20", "21", "22", "100", "308", "309", "400", "324", "7"}).Draw(t, "ed"))
	}
	return sb.String()
}

func genStringText(t *rapid.T) string {
	var sb strings.Builder
	sb.WriteByte('"')
	n := rapid.IntRange(0, 6).Draw(t, "pieces")
	for i := 0; i < n; i++ {
		switch rapid.IntRange(0, 9).Draw(t, "pk") {
		case 0, 1, 2:
			sb.WriteString(rapid.StringOfN(rapid.RuneFrom([]rune("abcXYZ 019_-{}[]:,")), 1, 4, -1).Draw(t, "plain"))
		case 3:
			sb.WriteString(rapid.SampledFrom([]string{"é", "日本", "\U0001F600", " ", " ", "\x7f"}).Draw(t, "mb"))
		case 4:
			sb.WriteString(rapid.SampledFrom([]string{`\"`, `\\`, `\/`, `\b`, `\f`, `\n`, `\r`, `\t`}).Draw(t, "esc"))
		case 5:
			sb.WriteString(`\u` + rapid.StringMatching(`[0-9a-fA-F]{4}`).Draw(t, "u4"))
		case 6:
			sb.WriteString(rapid.SampledFrom([]string{`😀`, `😀`, `\ud800`, `\udc00`, `\ud800A`, `\udc00\ud800`,
				`\ud83d\u`, `\u0000`, `\u001f`, `\u007f`, `￿`, `퟿`, ``, `􏿿`}).Draw(t, "sur"))
		case 7:
			sb.WriteString(rapid.SampledFrom([]string{"\xff", "\xc3", "\xe2\x82", "\xed\xa0\x80", "\xc0\xaf"}).Draw(t, "bad"))
		case 8:
			// invalid pieces: raw control char, bad escape, short \u
			sb.WriteString(rapid.SampledFrom([]string{"\n", "\x00", "\x1f", `\x`, `\u12`, `\u12g4`, `\'`, `\`}).Draw(t, "inv"))
		default:
			sb.WriteString(rapid.StringN(0, 3, 12).Draw(t, "any"))
		}
	}
	sb.WriteByte('"')
	return sb.String()
}

func genJSONText(t *rapid.T, depth int) string {
	k := rapid.IntRange(0, 9).Draw(t, "vk")
	if depth <= 0 && k >= 6 {
		k -= 6
	}
	switch k {
	case 0:
		return genNumberText(t)
	case 1:
		return genStringText(t)
	case 2:
		return rapid.SampledFrom([]string{"true", "false", "null"}).Draw(t, "lit")
	case 3:
		return genNumberText(t)
	case 4:
		return genStringText(t)
	case 5:
		return rapid.SampledFrom([]string{"[]", "{}", "[ ]", "{\n}", "0", "-0", "-0.0", "1e0", "\"\""}).Draw(t, "small")
	case 6, 7:
		n := rapid.IntRange(0, 4).Draw(t, "an")
		var sb strings.Builder
		sb.WriteString("[" + genWS(t))
		for i := 0; i < n; i++ {
			if i > 0 {
				sb.WriteString("," + genWS(t))
			}
			sb.WriteString(genJSONText(t, depth-1) + genWS(t))
		}
		sb.WriteString("]")
		return sb.String()
	default:
		n := rapid.IntRange(0, 4).Draw(t, "on")
		var sb strings.Builder
		sb.WriteString("{" + genWS(t))
		for i := 0; i < n; i++ {
			if i > 0 {
				sb.WriteString("," + genWS(t))
			}
			key := genStringText(t)
			if i > 0 && rapid.IntRange(0, 5).Draw(t, "dup") == 0 {
				key = `"k"`
			}
			sb.WriteString(key + genWS(t) + ":" + genWS(t) + genJSONText(t, depth-1) + genWS(t))
		}
		sb.WriteString("}")
		return sb.String()
	}
}

func mutate(t *rapid.T, b []byte) []byte {
	if len(b) == 0 {
		return []byte{rapid.Byte().Draw(t, "mb")}
	}
	out := append([]byte(nil), b...)
	pos := rapid.IntRange(0, len(out)-1).Draw(t, "pos")
	interesting := []byte(`"\,:[]{}-+.eE0123456789tfn u/` + "\x00\x1f\xff\n ")
	switch rapid.IntRange(0, 3).Draw(t, "mk") {
	case 0:
		out = append(out[:pos], out[pos+1:]...)
	case 1:
		c := rapid.SampledFrom(interesting).Draw(t, "c")
		out = append(out[:pos], append([]byte{c}, out[pos:]...)...)
	case 2:
		out[pos] = rapid.SampledFrom(interesting).Draw(t, "c")
	default:
		out = out[:pos] // truncate
	}
	return out
}

func drawDecodeInput(t *rapid.T) ([]byte, string) {
	switch rapid.IntRange(0, 9).Draw(t, "origin") {
	case 0, 1, 2, 3:
		return []byte(genWS(t) + genJSONText(t, 3) + genWS(t)), "rendered"
	case 4, 5, 6:
		b := []byte(genJSONText(t, 3))
		n := rapid.IntRange(1, 2).Draw(t, "nmut")
		for i := 0; i < n; i++ {
			b = mutate(t, b)
		}
		return b, "mutated"
	case 7:
		// encoding of a generated value, then one edit
		v := genJSONValue().Draw(t, "v")
		e, _, _ := safeEncode(v)
		if rapid.Bool().Draw(t, "edit") {
			e = mutate(t, e)
		}
		return e, "mutated"
	default:
		return rapid.SliceOfN(rapid.Byte(), 0, 40).Draw(t, "raw"), "raw"
	}
}

func TestDecodeBytes(t *testing.T) {
	rapid.Check(t, func(t *rapid.T) {
		b, origin := drawDecodeInput(t)
		if len(b) > maxInput {
			b = b[:maxInput]
		}
		checkDecode(t, "TestDecodeBytes", b, origin, false, false)
	})
}

func TestDecodeBytesScript(t *testing.T) {
	rapid.Check(t, func(t *rapid.T) {
		b, origin := drawDecodeInput(t)
		if len(b) > maxInput {
			b = b[:maxInput]
		}
		checkDecode(t, "TestDecodeBytesScript", b, origin, true, rapid.Bool().Draw(t, "asStr"))
	})
}

// ---------- native fuzz target (thorough tier) ----------

func FuzzJSONDecode(f *testing.F) {
	for _, s := range []string{`{"a":[1,2.5,"xé",true,null]}`, `[1e5, -0, 0.1e-2]`, `"😀"`, `{"k":1,"k":2}`,
		`100000000000000000000`, `[`, `{"a"}`, "\"\xff\"", `1E+5`, ` [ ] `, `{"a":{"b":{"c":[[]]}}}`, `-`, `"\u12"`, `tru`} {
		f.Add([]byte(s))
	}
	f.Fuzz(func(t *testing.T, b []byte) {
		if len(b) > maxInput {
			return
		}
		checkDecode(t, "FuzzJSONDecode", b, "fuzz", false, false)
	})
}

// ---------- replay ----------

func replayFile(t *testing.T, path string) {
	test := ev.ReplayTest(path)
	switch test {
	case "TestEncodeRoundTrip", "TestEncodeRoundTripScript", "TestEncodeTotal":
		var p encPayload
		if _, err := ev.LoadReplay(path, &p); err != nil {
			t.Fatalf("load %s: %v", path, err)
		}
		if test == "TestEncodeTotal" {
			if _, _, pan := safeEncode(p.Value.ToObject()); pan != nil {
				ev.Fail(t, test, p, "Encode panicked: %v", pan)
			}
			return
		}
		checkEncode(t, test, p.Value.ToObject(), p.Script)
	case "TestEncodeSequence":
		var p seqPayload
		if _, err := ev.LoadReplay(path, &p); err != nil {
			t.Fatalf("load %s: %v", path, err)
		}
		var vals []tengo.Object
		for _, s := range p.Values {
			vals = append(vals, s.ToObject())
		}
		checkSequence(t, test, vals)
	case "TestDecodeBytes", "TestDecodeBytesScript", "FuzzJSONDecode", "TestNestingBoundary":
		var p decPayload
		if _, err := ev.LoadReplay(path, &p); err != nil {
			t.Fatalf("load %s: %v", path, err)
		}
		var b []byte
		fmt.Sscanf(p.Hex, "%x", &b)
		checkDecode(t, test, b, "replay", p.Script, p.AsStr)
	default:
		t.Fatalf("unknown test %q in %s", test, path)
	}
}

func TestReplay(t *testing.T) {
	path := os.Getenv("VERIF_REPLAY")
	if path == "" {
		t.Skip("no VERIF_REPLAY")
	}
	if strings.HasSuffix(path, ".fuzz") {
		b, err := readFuzzFile(path)
		if err != nil {
			t.Fatal(err)
		}
		checkDecode(t, "FuzzJSONDecode", b, "replay", false, false)
		return
	}
	replayFile(t, path)
}

// TestRegressions re-runs every committed replay of a repaired defect: they
// must all pass.
func TestRegressions(t *testing.T) {
	root := os.Getenv("VERIF_ROOT")
	if root == "" {
		root = "/verif"
	}
	files, _ := filepath.Glob(filepath.Join(root, "replays", "C18", "fixed", "*.json"))
	sort.Strings(files)
	for _, f := range files {
		f := f
		t.Run(filepath.Base(f), func(t *testing.T) { replayFile(t, f) })
		ev.Note("regression replays run")
	}
}

func readFuzzFile(path string) ([]byte, error) {
	raw, err := os.ReadFile(path)
	if err != nil {
		return nil, err
	}
	lines := strings.Split(string(raw), "\n")
	for _, l := range lines[1:] {
		l = strings.TrimSpace(l)
		if strings.HasPrefix(l, "[]byte(") && strings.HasSuffix(l, ")") {
			s, err := strconv.Unquote(l[len("[]byte(") : len(l)-1])
			if err != nil {
				return nil, err
			}
			return []byte(s), nil
		}
	}
	return nil, fmt.Errorf("no []byte value in %s", path)
}
