package c18

// Results stay valid: what Encode / Decode returned must not be changed by
// later Encode / Decode calls (a result that aliases an internal, reused
// buffer decodes fine when it is looked at immediately, which is all the
// one-shot round-trip checks do). A history of 2..8 encodes and decodes of
// generated values is run; every result is copied when it is returned and
// compared with that copy after the whole history, and every encoding must
// still decode to its value then.

import (
	"bytes"
	"testing"

	"github.com/d5/tengo/v2"
	"pgregory.net/rapid"

	"verifharness/ev"
	"verifharness/tv"
)

type seqPayload struct {
	Values []*tv.Spec `json:"values"`
	Script bool       `json:"script"`
}

func checkSequence(t ev.TB, test string, vals []tengo.Object) {
	p := seqPayload{}
	for _, v := range vals {
		p.Values = append(p.Values, tv.FromObject(v))
	}
	type kept struct {
		live, copyOf []byte
		decLive      tengo.Object
		decDesc      string
	}
	var ks []kept
	for i, v := range vals {
		b, err, pan := safeEncode(v)
		if pan != nil || err != nil {
			ev.Fail(t, test, p, "Encode of value %d failed: %v %v", i, err, pan)
			return
		}
		k := kept{live: b, copyOf: append([]byte(nil), b...)}
		d, derr, dpan := safeDecode(b)
		if dpan != nil || derr != nil {
			ev.Fail(t, test, p, "Decode(Encode(value %d)) failed right after encoding: %v %v (%q)", i, derr, dpan, b)
			return
		}
		k.decLive, k.decDesc = d, tv.Describe(d)
		ks = append(ks, k)
	}
	for i, k := range ks {
		if !bytes.Equal(k.live, k.copyOf) {
			ev.Fail(t, test, p, "the bytes returned by Encode for value %d (%s) were changed by later calls:\n returned: %q\n now:      %q", i, tv.Describe(vals[i]), k.copyOf, k.live)
			return
		}
		if now := tv.Describe(k.decLive); now != k.decDesc {
			ev.Fail(t, test, p, "the value returned by Decode for encoding %d was changed by later calls:\n returned: %s\n now:      %s", i, k.decDesc, now)
			return
		}
		d, derr, dpan := safeDecode(k.live)
		if dpan != nil || derr != nil {
			ev.Fail(t, test, p, "encoding %d no longer decodes after later calls: %v %v (%q)", i, derr, dpan, k.live)
			return
		}
		if msg := roundTripEq(vals[i], d); msg != "" {
			ev.Fail(t, test, p, "encoding %d decodes to a different value after later calls: %s", i, msg)
			return
		}
	}
	strs := 0
	for _, v := range vals {
		if _, ok := v.(*tengo.String); ok {
			strs++
		}
	}
	cls := []string{"seq:history"}
	if strs > 0 {
		cls = append(cls, "seq:top-level-string")
	}
	ev.Case("seq|"+tv.Describe(&tengo.Array{Value: vals}), len(vals) >= 3 && strs > 0, cls...)
}

func TestEncodeSequence(t *testing.T) {
	rapid.Check(t, func(t *rapid.T) {
		n := rapid.IntRange(2, 8).Draw(t, "n")
		var vals []tengo.Object
		for i := 0; i < n; i++ {
			if rapid.IntRange(0, 2).Draw(t, "scalar") == 0 {
				// top-level scalars take the encoder's shortest paths
				vals = append(vals, tv.GenObject(tv.Opts{JSONOnly: true, MaxDepth: 0, MaxLen: 4}).Draw(t, "v"))
			} else {
				vals = append(vals, genJSONValue().Draw(t, "v"))
			}
		}
		checkSequence(t, "TestEncodeSequence", vals)
	})
}

// TestNestingBoundary: texts nested 9990..10010 levels deep (encoding/json's
// limit is 10000), arrays and objects mixed, scalar or empty container
// innermost, optionally with siblings on the way: accept/reject and the
// decoded data must agree with encoding/json on both sides of the limit.
func TestNestingBoundary(t *testing.T) {
	rapid.Check(t, func(t *rapid.T) {
		depth := 9990 + rapid.IntRange(0, 20).Draw(t, "depthOffset")
		pattern := rapid.SampledFrom([]string{"a", "o", "ao", "aao", "oa"}).Draw(t, "pattern")
		inner := rapid.SampledFrom([]string{"1", `"s"`, "[]", "{}", "null", "[1,2]", `{"z":0}`}).Draw(t, "inner")
		sibling := rapid.IntRange(0, 3).Draw(t, "sibling") == 0
		var open, closeRev []string
		for i := 0; i < depth; i++ {
			if pattern[i%len(pattern)] == 'a' {
				if sibling && i%1000 == 7 {
					open = append(open, "[0,")
				} else {
					open = append(open, "[")
				}
				closeRev = append(closeRev, "]")
			} else {
				open = append(open, `{"k":`)
				closeRev = append(closeRev, "}")
			}
		}
		var sb []byte
		for _, o := range open {
			sb = append(sb, o...)
		}
		sb = append(sb, inner...)
		for i := len(closeRev) - 1; i >= 0; i-- {
			sb = append(sb, closeRev[i]...)
		}
		checkDecode(t, "TestNestingBoundary", sb, "nesting-boundary", false, false)
	})
}
