// C19 — standard-library wrappers compute what the wrapped Go functions
// compute.
//
// Every entry of the text (incl. the Regexp object), math, base64, hex, enum
// modules and of the clock-independent part of times is enumerated from the
// module maps at run time and looked up in a hand-written reference table
// (ref_*_test.go, enum_test.go) written from docs/stdlib-*.md. An entry
// without a row fails the check ("unreferenced entry").
package c19

import (
	"flag"
	"fmt"
	"os"
	"path/filepath"
	"regexp"
	"runtime"
	"runtime/debug"
	"sort"
	"strconv"
	"strings"
	"testing"
	"time"

	"github.com/d5/tengo/v2"
	"github.com/d5/tengo/v2/stdlib"
	"pgregory.net/rapid"

	"verifharness/ev"
)

func TestMain(m *testing.M) {
	// every script run allocates a fresh VM (stack + frames, ~150 KB): fewer
	// collections, same results
	if g := ev.EnvInt("C19_GOGC", 400); g > 0 {
		debug.SetGCPercent(g)
	}
	// every test here is single-threaded and the driver runs ~14 shard
	// processes side by side: two Ps each (test + concurrent GC) instead of
	// one per core keeps them from fighting over the machine
	if os.Getenv("GOMAXPROCS") == "" {
		runtime.GOMAXPROCS(2)
	}
	// A local zone with DST, so that to_local / date-without-location /
	// unix / time(int) are distinguishable from their UTC counterparts. Both
	// the module and the reference read time.Local.
	if loc, err := loadLocation("America/New_York"); err == nil {
		time.Local = loc
	}
	// Plain tests (TestEveryEntry) use rapid too; the driver passes
	// -rapid.seed only to the registered rapid properties, so derive one from
	// VERIF_SEED for the others.
	flag.Parse()
	if f := flag.Lookup("rapid.seed"); f != nil && f.Value.String() == "0" {
		_ = flag.Set("rapid.seed", strconv.FormatInt(1+ev.Seed()*7919, 10))
	}
	ev.Main(m, "C19")
}

// ---------- findings ----------

// Findings (see FINDINGS.md). While a switch is on, the generator excludes
// exactly that input pattern and counts the exclusions. All three are repaired
// in /repo: the switches are off, the patterns are generated and judged by the
// ordinary oracle (pad_*: the documented padded string; Regexp.find: the
// matches without the groups that did not participate, like text.re_find;
// the twelve wrappers: the documented error VALUE, no run-time error, the
// script continues), the reproducers are under replays/C19/fixed.
var openFindings = map[string]bool{
	"F-C19-1": false, // text.pad_left/pad_right panicked when len(s) < pad_len % len(pad_with); repaired by f9bc074
	"F-C19-2": false, // Regexp.find panicked when a capture group does not participate in a match; repaired by a2eb38d
	"F-C19-3": false, // hand-written wrappers returned the Go error ALSO as the call's error: run-time error instead of an error value; repaired by 433f395
}

var findingText = map[string]string{
	"F-C19-1": "text.pad_left/pad_right: slice-bounds panic when pad_len >= len(pad_with) and len(s) < pad_len % len(pad_with) (too few repetitions of pad_with)",
	"F-C19-2": "Regexp.find (object returned by text.re_compile): slice-bounds panic when a capture group does not participate in a match (text.re_find skips such groups)",
	"F-C19-3": "text.re_match/re_find/re_replace/re_split/re_compile/parse_bool/parse_float/parse_int and times.parse_duration/parse/date/in_location: a Go error is returned both as error value and as the CallableFunc's error (named result err assigned by :=), so the script gets a run-time error instead of the documented error value",
}

// errLeakRows: the hand-written wrappers of F-C19-3 (documented "=> .../error").
var errLeakRows = map[string]bool{
	"text.re_match": true, "text.re_find": true, "text.re_replace": true, "text.re_split": true, "text.re_compile": true,
	"text.parse_bool": true, "text.parse_float": true, "text.parse_int": true,
	"times.parse_duration": true, "times.parse": true, "times.date": true, "times.in_location": true,
}

// knownFinding names the finding whose input pattern the call matches (used
// for the exclusion while a switch is on, and as a histogram class).
func knownFinding(r *row, args []tengo.Object, want outcome) string {
	if errLeakRows[r.id()] && want.kind == oErrVal {
		return "F-C19-3"
	}
	switch r.id() {
	case "text.pad_left", "text.pad_right":
		if len(args) != 3 {
			return ""
		}
		a, bad := r.coerceArgs(args)
		if bad >= 0 {
			return ""
		}
		s, n, p := a.S(0), a.I(1), len(a.S(2))
		if p > 0 && n > len(s) && n >= p && len(s) < n%p {
			return "F-C19-1"
		}
	case "text.regexp.find":
		if len(args) < 2 || len(args) > 3 {
			return ""
		}
		a, bad := r.coerceArgs(args)
		if bad >= 0 {
			return ""
		}
		re, err := regexp.Compile(a.S(0))
		if err != nil {
			return ""
		}
		var ms [][]int
		if len(a) == 2 {
			if m := re.FindStringSubmatchIndex(a.S(1)); m != nil {
				ms = [][]int{m}
			}
		} else {
			ms = re.FindAllStringSubmatchIndex(a.S(1), a.I(2))
		}
		for _, m := range ms {
			for _, i := range m {
				if i < 0 {
					return "F-C19-2"
				}
			}
		}
	}
	return ""
}

// ---------- module enumeration ----------

type entry struct {
	mod, name string
	obj       tengo.Object
}

func (e entry) id() string { return e.mod + "." + e.name }

var builtinMods = []string{"text", "math", "base64", "hex", "times"}

func sortedKeys(m map[string]tengo.Object) []string {
	keys := make([]string, 0, len(m))
	for k := range m {
		keys = append(keys, k)
	}
	sort.Strings(keys)
	return keys
}

// moduleEntries lists what the modules export right now.
func moduleEntries() ([]entry, error) {
	var out []entry
	for _, mod := range builtinMods {
		m := stdlib.BuiltinModules[mod]
		if m == nil {
			return nil, fmt.Errorf("stdlib.BuiltinModules has no module %q", mod)
		}
		for _, k := range sortedKeys(m) {
			out = append(out, entry{mod, k, m[k]})
		}
	}
	// the Regexp object
	rc, ok := stdlib.BuiltinModules["text"]["re_compile"].(*tengo.UserFunction)
	if !ok {
		return nil, fmt.Errorf("text.re_compile is not a function")
	}
	obj, err := rc.Value(strObj("a"))
	if err != nil {
		return nil, fmt.Errorf("text.re_compile(\"a\"): %v", err)
	}
	rm, ok := obj.(*tengo.ImmutableMap)
	if !ok {
		return nil, fmt.Errorf("text.re_compile(\"a\") returned %s", descr(obj))
	}
	for _, k := range sortedKeys(rm.Value) {
		out = append(out, entry{"text.regexp", k, rm.Value[k]})
	}
	// enum: a source module, enumerated by importing it
	if stdlib.SourceModules["enum"] == "" {
		return nil, fmt.Errorf("stdlib.SourceModules has no module \"enum\"")
	}
	eo, err := runScript("enum", `r := import("enum")`, nil)
	if err != nil {
		return nil, fmt.Errorf("import(\"enum\"): %v", err)
	}
	em, ok := eo.(*tengo.ImmutableMap)
	if !ok {
		return nil, fmt.Errorf("import(\"enum\") is %s", descr(eo))
	}
	for _, k := range sortedKeys(em.Value) {
		out = append(out, entry{"enum", k, em.Value[k]})
	}
	return out, nil
}

var (
	cachedEntries []entry
	cachedErr     error
	cachedDone    bool
)

func entries() ([]entry, error) {
	if !cachedDone {
		cachedEntries, cachedErr = moduleEntries()
		cachedDone = true
	}
	return cachedEntries, cachedErr
}

type tablePayload struct {
	Entry string `json:"entry"`
	What  string `json:"what"`
}

// checkTable: every module entry has a reference row of the right sort, every
// row has an entry, constants have the documented values.
func checkTable(t ev.TB, test string) {
	es, err := entries()
	if err != nil {
		ev.Fail(t, test, tablePayload{What: err.Error()}, "cannot enumerate the modules: %v", err)
		return
	}
	seen := map[string]bool{}
	for _, e := range es {
		seen[e.id()] = true
		if e.mod == "enum" {
			if enumRows[e.name] == nil {
				ev.Fail(t, test, tablePayload{Entry: e.id(), What: "unreferenced entry"}, "unreferenced entry: module entry %s has no reference row", e.id())
				return
			}
			if _, ok := e.obj.(*tengo.CompiledFunction); !ok {
				ev.Fail(t, test, tablePayload{Entry: e.id(), What: "not a function"}, "module entry %s is %s, documented as a function", e.id(), descr(e.obj))
				return
			}
			ev.Case("table:"+e.id(), false, "entry:"+e.id(), "table:function")
			continue
		}
		r := rowByID[e.id()]
		if r == nil {
			ev.Fail(t, test, tablePayload{Entry: e.id(), What: "unreferenced entry"}, "unreferenced entry: module entry %s has no reference row", e.id())
			return
		}
		if r.isConst {
			want := toObj(r.constant)
			if descr(want) != descr(e.obj) {
				ev.Fail(t, test, tablePayload{Entry: e.id(), What: "constant"}, "constant %s is %s, documented value %s", e.id(), descr(e.obj), descr(want))
				return
			}
			// and as seen by a script
			got, err := runScript(e.mod, `m := import("`+e.mod+`"); r := m.`+e.name, nil)
			if err != nil || descr(got) != descr(want) {
				ev.Fail(t, test, tablePayload{Entry: e.id(), What: "constant via script"}, "constant %s read by a script: %v %v, documented value %s", e.id(), got, err, descr(want))
				return
			}
			ev.Case("table:"+e.id(), false, "entry:"+e.id(), "table:constant")
			continue
		}
		if _, ok := e.obj.(*tengo.UserFunction); !ok {
			ev.Fail(t, test, tablePayload{Entry: e.id(), What: "not a function"}, "module entry %s is %s, documented as a function", e.id(), descr(e.obj))
			return
		}
		ev.Case("table:"+e.id(), false, "entry:"+e.id(), "table:function")
	}
	for _, r := range rows {
		if !seen[r.id()] {
			ev.Fail(t, test, tablePayload{Entry: r.id(), What: "documented entry missing"}, "documented entry %s (%s) is not exported by the module", r.id(), r.doc)
			return
		}
	}
	for name := range enumRows {
		if !seen["enum."+name] {
			ev.Fail(t, test, tablePayload{Entry: "enum." + name, What: "documented entry missing"}, "documented entry enum.%s is not exported by the module", name)
			return
		}
	}
}

func TestTable(t *testing.T) {
	checkTable(t, "TestTable")
	es, _ := entries()
	ev.ClassN("table:entries", int64(len(es)))
}

// functionRows: rows of callable entries present in the modules, in module
// order (drawn from by the properties).
func functionRows(t ev.TB, test string) []*row {
	es, err := entries()
	if err != nil {
		ev.Fail(t, test, tablePayload{What: err.Error()}, "cannot enumerate the modules: %v", err)
		return nil
	}
	var out []*row
	for _, e := range es {
		if e.mod == "enum" {
			continue
		}
		r := rowByID[e.id()]
		if r == nil {
			ev.Fail(t, test, tablePayload{Entry: e.id(), What: "unreferenced entry"}, "unreferenced entry: module entry %s has no reference row", e.id())
			return nil
		}
		if !r.isConst {
			out = append(out, r)
		}
	}
	return out
}

// ---------- one call ----------

type callPayload struct {
	Row     string `json:"row"`
	Script  bool   `json:"script"`
	Args    []*val `json:"args"`  // for text.regexp.* rows args[0] is the pattern the object is compiled from
	Limit   int    `json:"limit"` // tengo.MaxStringLen during the call; -1 = default
	Finding string `json:"finding,omitempty"`
	Echo    string `json:"echo,omitempty"`
}

type callCase struct {
	r           *row
	args        []tengo.Object
	script      bool
	limit       int
	mode        string
	ignoreKnown bool
}

func (c *callCase) payload() callPayload {
	return callPayload{Row: c.r.id(), Script: c.script, Args: toVals(c.args), Limit: c.limit,
		Echo: c.r.id() + describeArgs(c.args)}
}

func (c *callCase) call() outcome {
	r := c.r
	pattern := ""
	args := c.args
	if r.pattern {
		p, ok := args[0].(*tengo.String)
		if !ok {
			return outcome{kind: "harness-error", msg: "harness: pattern argument is not a string"}
		}
		pattern, args = p.Value, args[1:]
	}
	if c.limit >= 0 {
		old := tengo.MaxStringLen
		tengo.MaxStringLen = c.limit
		defer func() { tengo.MaxStringLen = old }()
	}
	if c.script {
		return callScript(r, pattern, args)
	}
	fn, problem := callable(r, pattern)
	if fn == nil {
		return outcome{kind: "harness-error", msg: "harness: " + problem}
	}
	return callDirect(fn, args, r.id()+describeArgs(c.args))
}

// run evaluates one case; the returned verdict is "" when the call behaved as
// documented (or the case was discarded).
func (c *callCase) run() string {
	r := c.r
	want, a := r.expect(c.args, c.limit)
	if !c.ignoreKnown {
		if f := knownFinding(r, c.args, want); f != "" && openFindings[f] {
			ev.Discard("known:" + f)
			return ""
		}
	}
	path := "path:direct"
	if c.script {
		path = "path:script"
	}
	classes := []string{"entry:" + r.id(), "mode:" + c.mode, path, "want:" + want.kind}
	if f := knownFinding(r, c.args, want); f != "" {
		classes = append(classes, "pattern-of-repaired:"+f) // the input pattern of a former finding is exercised
	}
	key := r.id() + describeArgs(c.args) + path
	switch want.kind {
	case oUnsafe:
		ev.Discard("work bound (never executed)")
		return ""
	case oClock:
		got := c.call()
		if got.kind != oValue {
			return fmt.Sprintf("%s%s: %s", r.id(), describeArgs(c.args), got)
		}
		ev.Case(key, false, classes...)
		return ""
	case oOut:
		// totality sub-mode: outside the domain of the Go function; any
		// outcome but "does not return" is accepted, a panic is recorded.
		got := c.call()
		if got.kind == oHang || got.kind == "harness-error" {
			return fmt.Sprintf("%s%s (outside the documented domain): %s %s", r.id(), describeArgs(c.args), got.kind, got.msg)
		}
		ev.Note("totality:" + got.kind + ":" + r.id())
		ev.Case(key, false, append(classes, "totality:"+got.kind)...)
		return ""
	}
	got := c.call()
	if d := agree(want, got); d != "" {
		return fmt.Sprintf("%s%s [%s]: %s", r.id(), describeArgs(c.args), r.doc, d)
	}
	nontrivial := false
	if a != nil && (want.kind == oValue || want.kind == oErrVal || want.kind == oRtErr) {
		nontrivial = distinguishes(r, a)
	}
	if nontrivial {
		classes = append(classes, "distinguishing")
	}
	ev.Case(key, nontrivial, classes...)
	if nontrivial && ev.WantSample() && len(key) < 200 && ev.Hash(key)%97 == 0 {
		ev.Sample(map[string]string{"call": r.id() + describeArgs(c.args), "path": path[5:], "expected": want.String(), "reference": r.doc})
	}
	return ""
}

// agree special case: re_compile returns an object.
var agreeHook = func(want, got outcome) (string, bool) {
	if want.kind == oValue && want.val == tengo.Object(regexpObjectMarker) {
		if got.kind != oValue {
			return fmt.Sprintf("expected a Regexp object, got %s", got), true
		}
		m, ok := got.val.(*tengo.ImmutableMap)
		if !ok {
			return fmt.Sprintf("expected a Regexp object, got %s", got), true
		}
		keys := strings.Join(sortedKeys(m.Value), ",")
		if keys != "find,match,replace,split" {
			return "Regexp object has methods " + keys + ", documented: find, match, replace, split", true
		}
		for _, k := range sortedKeys(m.Value) {
			if !m.Value[k].CanCall() {
				return "Regexp object member " + k + " is not callable", true
			}
		}
		return "", true
	}
	return "", false
}

// ---------- drawing a case ----------

var modes = []string{"typed", "typed", "typed", "typed", "typed", "typed", "typed", "typed", "typed",
	"coerced", "coerced", "coerced", "coerced", "wrongtype", "wrongtype", "arity", "arity", "boundary", "boundary", "boundary"}

func firstMutable(r *row) int {
	if r.pattern {
		return 1
	}
	return 0
}

// drawCase draws a mode and a tuple for the row. ok=false: nothing to run
// (the reason has been counted as a discard).
func drawCase(t *rapid.T, r *row) (args []tengo.Object, mode string, ok bool) {
	mode = modes[rapid.IntRange(0, len(modes)-1).Draw(t, "mode")]
	n := drawArity(t, r)
	first := firstMutable(r)
	if len(r.kinds) == first && (mode == "coerced" || mode == "wrongtype" || mode == "boundary") {
		mode = "arity"
	}
	if r.clock && (mode == "coerced" || mode == "boundary") {
		mode = "typed"
	}
	args = typedTuple(t, r, n)
	switch mode {
	case "coerced":
		changed := false
		for i := first; i < len(args); i++ {
			if rapid.Bool().Draw(t, "re") {
				if o := recoerce(t, r.kinds[i], args[i]); o != args[i] {
					args[i], changed = o, true
				}
			}
		}
		if !changed || rapid.IntRange(0, 3).Draw(t, "free") == 0 {
			i := rapid.IntRange(first, len(args)-1).Draw(t, "fpos")
			if o := freeCoercible(t, r.kinds[i]); o != nil {
				args[i], changed = o, true
			} else if o := recoerce(t, r.kinds[i], args[i]); o != args[i] {
				args[i], changed = o, true
			}
		}
		if !changed {
			mode = "typed"
		}
	case "wrongtype":
		if n == first {
			ev.Discard("no argument to mistype")
			return nil, mode, false
		}
		// a base tuple on which the function itself has nothing to complain
		// about, so that the type error is the only thing to report
		for try := 0; try < 4 && !r.clock; try++ {
			if w, _ := r.expect(args, -1); w.kind == oValue {
				break
			}
			args = typedTuple(t, r, n)
		}
		i := rapid.IntRange(first, n-1).Draw(t, "wpos")
		if r.lazy != nil && r.lazy(i, args) {
			ev.Discard("lenient: argument validated lazily (docs silent)")
			return nil, mode, false
		}
		args = append([]tengo.Object(nil), args...)
		args[i] = wrongTyped(t, r.kinds[i])
	case "arity":
		max := len(r.kinds)
		var k int
		if r.min > first && rapid.Bool().Draw(t, "fewer") {
			k = rapid.IntRange(first, r.min-1).Draw(t, "k")
		} else {
			k = max + rapid.IntRange(1, 2).Draw(t, "extra")
		}
		full := typedTuple(t, r, max)
		for len(full) < k {
			full = append(full, pick[tengo.Object](t, "xarg", intObj(1), strObj("a"), tengo.UndefinedValue, fltObj(0.5), &tengo.Time{}))
		}
		args = full[:k]
	case "boundary":
		args = boundaryMutate(t, r, args)
	}
	return args, mode, true
}

func propCall(t *rapid.T, test string, r *row, script bool) {
	args, mode, ok := drawCase(t, r)
	if !ok {
		return
	}
	c := &callCase{r: r, args: args, script: script, limit: -1, mode: mode}
	if v := c.run(); v != "" {
		ev.Fail(t, test, c.payload(), "%s", v)
	}
}

// TestCalls: direct calls of the CallableFunc of a random entry.
func TestCalls(t *testing.T) {
	checkTable(t, "TestCalls")
	frows := functionRows(t, "TestCalls")
	rapid.Check(t, func(t *rapid.T) {
		r := frows[rapid.IntRange(0, len(frows)-1).Draw(t, "entry")]
		propCall(t, "TestCalls", r, false)
	})
}

// TestCallsScript: the same through a script that imports the module.
func TestCallsScript(t *testing.T) {
	checkTable(t, "TestCallsScript")
	frows := functionRows(t, "TestCallsScript")
	rapid.Check(t, func(t *rapid.T) {
		r := frows[rapid.IntRange(0, len(frows)-1).Draw(t, "entry")]
		propCall(t, "TestCallsScript", r, true)
	})
}

// TestEveryEntry: a fixed number of cases for every single entry (so that no
// entry depends on being drawn), both paths.
func TestEveryEntry(t *testing.T) {
	checkTable(t, "TestEveryEntry")
	for _, r := range functionRows(t, "TestEveryEntry") {
		r := r
		t.Run(r.id(), func(t *testing.T) {
			rapid.Check(t, func(t *rapid.T) {
				propCall(t, "TestEveryEntry", r, rapid.IntRange(0, 4).Draw(t, "viaScript") == 0)
			})
		})
	}
	for _, name := range sortedEnumNames() {
		name := name
		t.Run("enum."+name, func(t *testing.T) {
			rapid.Check(t, func(t *rapid.T) { propEnum(t, "TestEveryEntry", name) })
		})
	}
}

// ---------- size limit ----------

func longestInput(a A) int {
	m := 0
	for _, v := range a {
		switch x := v.(type) {
		case string:
			if len(x) > m {
				m = len(x)
			}
		case []byte:
			if len(x) > m {
				m = len(x)
			}
		case []string:
			for _, s := range x {
				if len(s) > m {
					m = len(s)
				}
			}
		}
	}
	return m
}

// TestSizeLimit: the size-limited functions equal their Go equivalent within
// tengo.MaxStringLen and fail with ErrStringLimit beyond it. The limit is
// aimed at the size of the reference result (n-1, n, n+1, n+7) and is never
// below the longest input string (a script cannot hold a longer string).
func TestSizeLimit(t *testing.T) {
	checkTable(t, "TestSizeLimit")
	var lrows []*row
	for _, r := range functionRows(t, "TestSizeLimit") {
		if r.lim {
			lrows = append(lrows, r)
		}
	}
	rapid.Check(t, func(t *rapid.T) {
		r := lrows[rapid.IntRange(0, len(lrows)-1).Draw(t, "entry")]
		n := drawArity(t, r)
		args := typedTuple(t, r, n)
		if rapid.IntRange(0, 3).Draw(t, "coerce") == 0 {
			for i := firstMutable(r); i < len(args); i++ {
				args[i] = recoerce(t, r.kinds[i], args[i])
			}
		}
		w, a := r.expect(args, -1)
		if w.kind != oValue {
			ev.Discard("size limit: reference gives no value (" + w.kind + ")")
			return
		}
		res, _, _ := safeRef(r, a)
		size := r.limitSize(a, res)
		floor := longestInput(a)
		var cands []int
		for _, l := range []int{size - 1, size, size + 1, size + 7} {
			if l >= floor && l >= 0 {
				cands = append(cands, l)
			}
		}
		if len(cands) == 0 {
			ev.Discard("size limit: no admissible limit")
			return
		}
		limit := cands[rapid.IntRange(0, len(cands)-1).Draw(t, "limit")]
		script := limit >= 16 && rapid.IntRange(0, 9).Draw(t, "viaScript") == 0
		c := &callCase{r: r, args: args, script: script, limit: limit, mode: "limit"}
		if v := c.run(); v != "" {
			ev.Fail(t, "TestSizeLimit", c.payload(), "MaxStringLen=%d: %s", limit, v)
		}
		switch {
		case size > limit:
			ev.Class("limit:beyond")
		case size == limit:
			ev.Class("limit:exactly-at")
		default:
			ev.Class("limit:within")
		}
	})
}

// ---------- replay ----------

func replayFile(t *testing.T, path string) string {
	test := ev.ReplayTest(path)
	switch test {
	case "TestTable":
		checkTable(t, test)
		return ""
	case "TestCalls", "TestCallsScript", "TestEveryEntry", "TestSizeLimit":
		// TestEveryEntry also holds enum cases
		var probe struct {
			Fn string `json:"fn"`
		}
		_, _ = ev.LoadReplay(path, &probe)
		if probe.Fn != "" {
			return replayEnum(t, path)
		}
		var p callPayload
		if _, err := ev.LoadReplay(path, &p); err != nil {
			t.Fatalf("load %s: %v", path, err)
		}
		r := rowByID[p.Row]
		if r == nil {
			t.Fatalf("%s: no reference row %q", path, p.Row)
		}
		c := &callCase{r: r, args: fromVals(p.Args), script: p.Script, limit: p.Limit, mode: "replay", ignoreKnown: true}
		return c.run()
	case "TestEnum":
		return replayEnum(t, path)
	}
	t.Fatalf("unknown test %q in %s", test, path)
	return ""
}

func TestReplay(t *testing.T) {
	path := os.Getenv("VERIF_REPLAY")
	if path == "" {
		t.Skip("no VERIF_REPLAY")
	}
	if v := replayFile(t, path); v != "" {
		ev.Fail(t, ev.ReplayTest(path), map[string]string{"replay_of": path}, "%s", v)
	}
}

func verifRoot() string {
	if root := os.Getenv("VERIF_ROOT"); root != "" {
		return root
	}
	return "/verif"
}

// TestRegressions re-runs every committed replay of a repaired defect.
func TestRegressions(t *testing.T) {
	files, _ := filepath.Glob(filepath.Join(verifRoot(), "replays", "C19", "fixed", "*.json"))
	sort.Strings(files)
	for _, f := range files {
		f := f
		t.Run(filepath.Base(f), func(t *testing.T) {
			if v := replayFile(t, f); v != "" {
				ev.Fail(t, ev.ReplayTest(f), map[string]string{"replay_of": f}, "%s", v)
			}
		})
		ev.Note("regression replays run")
	}
}

// TestKnownFindings re-runs the reproducer of every open finding through the
// oracle (exclusion off) and reports it as KNOWN-FINDING while it still fails.
func TestKnownFindings(t *testing.T) {
	files, _ := filepath.Glob(filepath.Join(verifRoot(), "replays", "C19", "open", "*.json"))
	sort.Strings(files)
	seen := map[string]bool{}
	for _, f := range files {
		var p struct {
			Finding string `json:"finding"`
		}
		if _, err := ev.LoadReplay(f, &p); err != nil || p.Finding == "" {
			t.Fatalf("open replay %s has no finding id (%v)", f, err)
		}
		seen[p.Finding] = true
		if v := replayFile(t, f); v != "" {
			ev.Known(p.Finding, findingText[p.Finding])
			t.Logf("%s still reproduces: %s", p.Finding, v)
		} else {
			ev.Note(p.Finding + " no longer reproduces (" + filepath.Base(f) + "): turn the switch off and move the replay to fixed/")
			t.Logf("%s no longer reproduces (%s)", p.Finding, f)
		}
	}
	for id, on := range openFindings {
		if on && !seen[id] {
			t.Fatalf("open finding %s has no replay under replays/C19/open", id)
		}
	}
}
