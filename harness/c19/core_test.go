package c19

// Core of the C19 check: the reference-row type, argument coercion written
// from docs/runtime-types.md ("Type Conversion/Coercion Table"), the expected
// outcome of a call, the two call paths (direct CallableFunc, script that
// imports the module) and the comparison of outcomes.

import (
	"fmt"
	"math"
	"sort"
	"strconv"
	"strings"
	"sync/atomic"
	"time"

	"github.com/d5/tengo/v2"
	"github.com/d5/tengo/v2/stdlib"
	"pgregory.net/rapid"

	"verifharness/tv"
)

// ---------- coerced arguments ----------

// A holds the arguments of one call after coercion to Go values:
// string, int, int64, float64, []byte, time.Time, bool, []string, tengo.Object.
type A []interface{}

func (a A) S(i int) string       { return a[i].(string) }
func (a A) I(i int) int          { return a[i].(int) }
func (a A) L(i int) int64        { return a[i].(int64) }
func (a A) F(i int) float64      { return a[i].(float64) }
func (a A) Y(i int) []byte       { return a[i].([]byte) }
func (a A) T(i int) time.Time    { return a[i].(time.Time) }
func (a A) B(i int) bool         { return a[i].(bool) }
func (a A) Ss(i int) []string    { return a[i].([]string) }
func (a A) O(i int) tengo.Object { return a[i].(tengo.Object) }

// Parameter kinds (one letter per parameter in row.kinds):
//
//	S string-compatible   I int-compatible (Go int)   L int-compatible (int64)
//	F float-compatible    Y bytes-compatible          T time-compatible
//	A array of string-compatible elements
//	b Bool only           s String only               f Float only   i Int only
//
// The compatible kinds follow docs/runtime-types.md:
//
//	-> String: Int/Float via strconv, Bool "true"/"false", Char string(c),
//	           Bytes string(y), Array "[...]", Map "{...}", Time String(),
//	           Error "error: ...", Undefined: no conversion
//	-> Int:    String via strconv, Float int64(f), Bool 1/0, Char int64(c)
//	-> Float:  Int float64(v), String via strconv
//	-> Bytes:  String []byte(s)
//	-> Time:   Int time.Unix(v, 0)
//
// The strict kinds (b s f i) are where the implementation takes the documented
// type literally (format_bool, format_float's f, format_int's i, parse_*'s s);
// the docs do not say which parameters coerce, so the table follows the
// implementation there.

func coerceString(o tengo.Object) (string, bool) {
	switch v := o.(type) {
	case *tengo.Undefined:
		return "", false
	case *tengo.String:
		return v.Value, true
	case *tengo.Int:
		return strconv.FormatInt(v.Value, 10), true
	case *tengo.Float:
		// docs: "strconv"; the format ('f', shortest) is the implementation's
		return strconv.FormatFloat(v.Value, 'f', -1, 64), true
	case *tengo.Bool:
		if v.IsFalsy() {
			return "false", true
		}
		return "true", true
	case *tengo.Char:
		return string(v.Value), true
	case *tengo.Bytes:
		return string(v.Value), true
	case *tengo.Time:
		return v.Value.String(), true
	}
	// containers, errors, functions: "[...]", "{...}", "error: ..." - the
	// exact rendering is Object.String() (docs: "String(): use Object.String()")
	return o.String(), true
}

func coerceInt64(o tengo.Object) (int64, bool) {
	switch v := o.(type) {
	case *tengo.Int:
		return v.Value, true
	case *tengo.Float:
		return int64(v.Value), true
	case *tengo.Char:
		return int64(v.Value), true
	case *tengo.Bool:
		if v.IsFalsy() {
			return 0, true
		}
		return 1, true
	case *tengo.String:
		n, err := strconv.ParseInt(v.Value, 10, 64)
		return n, err == nil
	}
	return 0, false
}

func coerceFloat(o tengo.Object) (float64, bool) {
	switch v := o.(type) {
	case *tengo.Int:
		return float64(v.Value), true
	case *tengo.Float:
		return v.Value, true
	case *tengo.String:
		f, err := strconv.ParseFloat(v.Value, 64)
		return f, err == nil
	}
	return 0, false
}

func coerce(kind byte, o tengo.Object) (interface{}, bool) {
	if o == nil {
		return nil, false
	}
	switch kind {
	case 'S':
		s, ok := coerceString(o)
		return s, ok
	case 'I':
		n, ok := coerceInt64(o)
		return int(n), ok
	case 'L':
		n, ok := coerceInt64(o)
		return n, ok
	case 'F':
		f, ok := coerceFloat(o)
		return f, ok
	case 'Y':
		switch v := o.(type) {
		case *tengo.Bytes:
			return v.Value, true
		case *tengo.String:
			return []byte(v.Value), true
		}
		return nil, false
	case 'T':
		switch v := o.(type) {
		case *tengo.Time:
			return v.Value, true
		case *tengo.Int:
			return time.Unix(v.Value, 0), true
		}
		return nil, false
	case 'A':
		var xs []tengo.Object
		switch v := o.(type) {
		case *tengo.Array:
			xs = v.Value
		case *tengo.ImmutableArray:
			xs = v.Value
		default:
			return nil, false
		}
		out := make([]string, 0, len(xs))
		for _, x := range xs {
			s, ok := coerceString(x)
			if !ok {
				return nil, false
			}
			out = append(out, s)
		}
		return out, true
	case 'b':
		if v, ok := o.(*tengo.Bool); ok {
			return !v.IsFalsy(), true
		}
		return nil, false
	case 's':
		if v, ok := o.(*tengo.String); ok {
			return v.Value, true
		}
		return nil, false
	case 'f':
		if v, ok := o.(*tengo.Float); ok {
			return v.Value, true
		}
		return nil, false
	case 'i':
		if v, ok := o.(*tengo.Int); ok {
			return v.Value, true
		}
		return nil, false
	}
	panic("unknown parameter kind " + string(kind))
}

// ---------- rows ----------

const (
	domOK     = 0 // inside the domain where the Go function is defined
	domOut    = 1 // outside: only the totality sub-mode calls it, nothing is judged
	domUnsafe = 2 // unbounded work or memory: never executed
)

type genFn func(t *rapid.T, r *row, n int) []tengo.Object

type row struct {
	mod, name string
	kinds     string // parameter kinds, one letter each
	min       int    // minimum number of arguments; maximum is len(kinds)
	ret       string // result tag, used only to group same-signature siblings
	ref       func(a A) (interface{}, error)
	dom       func(a A) int
	gen       genFn
	lim       bool                                  // result strings are checked against tengo.MaxStringLen
	limSize   func(a A, res interface{}) int        // size compared against the limit (default: longest string of the result)
	lazy      func(i int, args []tengo.Object) bool // argument i is validated lazily for this tuple (docs silent): no type-error expectation
	isConst   bool
	constant  interface{}
	clock     bool   // now/since/until: value depends on the clock; only arity/type rejections are judged
	pattern   bool   // Regexp object method: called on re_compile(pattern)
	nonPos    bool   // times.sleep: only called with durations <= 0
	doc       string // the documented Go function
}

func (r *row) id() string { return r.mod + "." + r.name }

var (
	rows    []*row
	rowByID = map[string]*row{}
)

type rtErr struct{ msg string } // a run-time error prescribed by the implementation where docs are silent (text.substr)

func parseSig(sig string) (kinds string, min int, ret string) {
	parts := strings.SplitN(sig, ">", 2)
	ret = parts[1]
	p := parts[0]
	if i := strings.IndexByte(p, '|'); i >= 0 {
		return p[:i] + p[i+1:], i, ret
	}
	return p, len(p), ret
}

type opt func(*row)

func add(mod, name, sig, doc string, ref func(a A) (interface{}, error), gen genFn, opts ...opt) {
	k, min, ret := parseSig(sig)
	r := &row{mod: mod, name: name, kinds: k, min: min, ret: ret, ref: ref, gen: gen, doc: doc}
	for _, o := range opts {
		o(r)
	}
	if rowByID[r.id()] != nil {
		panic("duplicate reference row " + r.id())
	}
	rows = append(rows, r)
	rowByID[r.id()] = r
}

func addConst(mod, name string, v interface{}) {
	r := &row{mod: mod, name: name, isConst: true, constant: v}
	if rowByID[r.id()] != nil {
		panic("duplicate reference row " + r.id())
	}
	rows = append(rows, r)
	rowByID[r.id()] = r
}

func withDom(f func(a A) int) opt { return func(r *row) { r.dom = f } }
func limited() opt                { return func(r *row) { r.lim = true } }
func withLimSize(f func(a A, res interface{}) int) opt {
	return func(r *row) { r.lim = true; r.limSize = f }
}
func withLazy(f func(i int, args []tengo.Object) bool) opt { return func(r *row) { r.lazy = f } }
func clockRow() opt                                        { return func(r *row) { r.clock = true } }
func onPattern() opt                                       { return func(r *row) { r.pattern = true } }

// ---------- results ----------

func strObj(s string) tengo.Object  { return &tengo.String{Value: s} }
func intObj(i int64) tengo.Object   { return &tengo.Int{Value: i} }
func fltObj(f float64) tengo.Object { return &tengo.Float{Value: f} }
func boolObj(b bool) tengo.Object {
	if b {
		return tengo.TrueValue
	}
	return tengo.FalseValue
}

func toObj(v interface{}) tengo.Object {
	switch x := v.(type) {
	case nil:
		return tengo.UndefinedValue
	case tengo.Object:
		return x
	case string:
		return strObj(x)
	case int:
		return intObj(int64(x))
	case int64:
		return intObj(x)
	case float64:
		return fltObj(x)
	case bool:
		return boolObj(x)
	case []byte:
		if x == nil {
			x = []byte{}
		}
		return &tengo.Bytes{Value: x}
	case time.Time:
		return &tengo.Time{Value: x}
	case time.Duration:
		return intObj(int64(x))
	case []string:
		arr := &tengo.Array{}
		for _, s := range x {
			arr.Value = append(arr.Value, strObj(s))
		}
		return arr
	}
	panic(fmt.Sprintf("toObj: unsupported %T", v))
}

// maxStr is the longest string/bytes anywhere in the value.
func maxStr(o tengo.Object) int {
	switch v := o.(type) {
	case *tengo.String:
		return len(v.Value)
	case *tengo.Array:
		m := 0
		for _, e := range v.Value {
			if n := maxStr(e); n > m {
				m = n
			}
		}
		return m
	case *tengo.ImmutableMap:
		m := 0
		for _, e := range v.Value {
			if n := maxStr(e); n > m {
				m = n
			}
		}
		return m
	}
	return 0
}

// ---------- outcomes ----------

const (
	oValue  = "value"
	oErrVal = "error-value"
	oArity  = "rt:wrong-number-of-arguments"
	oType   = "rt:invalid-argument-type"
	oLimit  = "rt:string-limit"
	oRtErr  = "rt:other"
	oPanic  = "panic"
	oOut    = "out-of-domain"
	oUnsafe = "unsafe"
	oClock  = "clock-dependent"
	oHang   = "no-return"
)

type outcome struct {
	kind string
	val  tengo.Object // oValue
	msg  string       // oErrVal, oRtErr, oPanic
}

func (o outcome) String() string {
	switch o.kind {
	case oValue:
		return "value " + descr(o.val)
	case oErrVal:
		return "error value " + strconv.Quote(o.msg)
	case oRtErr, oPanic:
		return o.kind + " " + strconv.Quote(o.msg)
	}
	return o.kind
}

// descr renders a value for comparison: like tv.Describe but (a) mutable and
// immutable containers are not distinguished (the docs do not say which of the
// two a function returns), (b) floats by bit pattern except that every NaN is
// the same, (c) times by instant and location name.
func descr(o tengo.Object) string {
	var sb strings.Builder
	descrTo(&sb, o, 0)
	return sb.String()
}

func descrTo(sb *strings.Builder, o tengo.Object, d int) {
	if d > 32 {
		sb.WriteString("<DEEP>")
		return
	}
	switch v := o.(type) {
	case *tengo.Float:
		if math.IsNaN(v.Value) {
			sb.WriteString("float(NaN)")
		} else {
			fmt.Fprintf(sb, "float(%s|%x)", strconv.FormatFloat(v.Value, 'g', -1, 64), math.Float64bits(v.Value))
		}
	case *tengo.Time:
		fmt.Fprintf(sb, "time(%d,%d,%s)", v.Value.Unix(), v.Value.Nanosecond(), v.Value.Location().String())
	case *tengo.Array:
		descrSeq(sb, v.Value, d)
	case *tengo.ImmutableArray:
		descrSeq(sb, v.Value, d)
	case *tengo.Map:
		descrMap(sb, v.Value, d)
	case *tengo.ImmutableMap:
		descrMap(sb, v.Value, d)
	case *tengo.Error:
		sb.WriteString("error(")
		descrTo(sb, v.Value, d+1)
		sb.WriteString(")")
	default:
		sb.WriteString(tv.Describe(o))
	}
}

func descrSeq(sb *strings.Builder, xs []tengo.Object, d int) {
	sb.WriteString("[")
	for i, x := range xs {
		if i > 0 {
			sb.WriteString(", ")
		}
		descrTo(sb, x, d+1)
	}
	sb.WriteString("]")
}

func descrMap(sb *strings.Builder, m map[string]tengo.Object, d int) {
	keys := make([]string, 0, len(m))
	for k := range m {
		keys = append(keys, k)
	}
	sort.Strings(keys)
	sb.WriteString("{")
	for i, k := range keys {
		if i > 0 {
			sb.WriteString(", ")
		}
		fmt.Fprintf(sb, "%q: ", k)
		descrTo(sb, m[k], d+1)
	}
	sb.WriteString("}")
}

func describeArgs(args []tengo.Object) string {
	parts := make([]string, len(args))
	for i, a := range args {
		parts[i] = descr(a)
	}
	return "(" + strings.Join(parts, ", ") + ")"
}

// ---------- expected outcome ----------

func safeRef(r *row, a A) (res interface{}, err error, pan interface{}) {
	defer func() {
		if x := recover(); x != nil {
			pan = x
		}
	}()
	res, err = r.ref(a)
	return
}

// coerceArgs applies the row's parameter kinds; bad is the index of the first
// argument that does not convert (-1 if all do).
func (r *row) coerceArgs(args []tengo.Object) (a A, bad int) {
	a = make(A, len(args))
	for i, o := range args {
		v, ok := coerce(r.kinds[i], o)
		if !ok {
			return nil, i
		}
		a[i] = v
	}
	return a, -1
}

// expect computes what the documentation prescribes for the call.
// limit < 0: tengo.MaxStringLen is at its default (never reached here).
func (r *row) expect(args []tengo.Object, limit int) (outcome, A) {
	if len(args) < r.min || len(args) > len(r.kinds) {
		return outcome{kind: oArity}, nil
	}
	a, bad := r.coerceArgs(args)
	if bad >= 0 {
		return outcome{kind: oType}, nil
	}
	if r.clock {
		return outcome{kind: oClock}, a
	}
	if r.dom != nil {
		switch r.dom(a) {
		case domOut:
			return outcome{kind: oOut}, a
		case domUnsafe:
			return outcome{kind: oUnsafe}, a
		}
	}
	res, err, pan := safeRef(r, a)
	if pan != nil {
		// the Go function itself panics: outside its domain by definition
		return outcome{kind: oOut, msg: fmt.Sprint(pan)}, a
	}
	if err != nil {
		return outcome{kind: oErrVal, msg: err.Error()}, a
	}
	if re, ok := res.(rtErr); ok {
		return outcome{kind: oRtErr, msg: re.msg}, a
	}
	obj := toObj(res)
	if limit >= 0 && r.lim {
		n := maxStr(obj)
		if r.limSize != nil {
			n = r.limSize(a, res)
		}
		if n > limit {
			return outcome{kind: oLimit}, a
		}
	}
	return outcome{kind: oValue, val: obj}, a
}

// limitSize is the size the limit applies to for this call (used to aim the
// limit at the boundary).
func (r *row) limitSize(a A, res interface{}) int {
	if r.limSize != nil {
		return r.limSize(a, res)
	}
	return maxStr(toObj(res))
}

// ---------- calling ----------

// watchdog: "the call returns". Direct calls and scripts run in the test
// goroutine; a background goroutine aborts the process with the case
// description when one call has been running for more than 60 s
// (infrastructure exit, with the case in the log) - generators bound the
// work, so this never fires on the unchanged tree.
var (
	wdCase  atomic.Value // string
	wdStart atomic.Int64 // unix nanos, 0 = idle
)

func init() {
	go func() {
		for {
			time.Sleep(2 * time.Second)
			s := wdStart.Load()
			if s != 0 && time.Since(time.Unix(0, s)) > 60*time.Second {
				c, _ := wdCase.Load().(string)
				panic("C19 watchdog: call did not return within 60s: " + c)
			}
		}
	}()
}

func callDirect(fn tengo.CallableFunc, args []tengo.Object, what string) (out outcome) {
	wdCase.Store(what)
	wdStart.Store(time.Now().UnixNano())
	defer func() {
		wdStart.Store(0)
		if x := recover(); x != nil {
			out = outcome{kind: oPanic, msg: fmt.Sprint(x)}
		}
	}()
	ret, err := fn(args...)
	return classify(ret, err)
}

func classify(ret tengo.Object, err error) outcome {
	if err != nil {
		if err == tengo.ErrWrongNumArguments {
			return outcome{kind: oArity}
		}
		if _, ok := err.(tengo.ErrInvalidArgumentType); ok {
			return outcome{kind: oType, msg: err.Error()}
		}
		if err == tengo.ErrStringLimit {
			return outcome{kind: oLimit}
		}
		return outcome{kind: oRtErr, msg: err.Error()}
	}
	if ret == nil {
		ret = tengo.UndefinedValue // the VM does the same
	}
	if e, ok := ret.(*tengo.Error); ok {
		if s, ok := e.Value.(*tengo.String); ok {
			return outcome{kind: oErrVal, msg: s.Value}
		}
	}
	return outcome{kind: oValue, val: ret}
}

func classifyScriptErr(err error) outcome {
	msg := err.Error()
	if _, ok := err.(panicError); ok {
		return outcome{kind: oPanic, msg: msg}
	}
	switch {
	case strings.Contains(msg, "wrong number of arguments"):
		return outcome{kind: oArity, msg: msg}
	case strings.Contains(msg, "invalid type for argument"):
		return outcome{kind: oType, msg: msg}
	case strings.Contains(msg, tengo.ErrStringLimit.Error()):
		return outcome{kind: oLimit, msg: msg}
	}
	return outcome{kind: oRtErr, msg: msg}
}

var moduleMaps = map[string]*tengo.ModuleMap{}

func modMap(mod string) *tengo.ModuleMap {
	if m := moduleMaps[mod]; m != nil {
		return m
	}
	m := stdlib.GetModuleMap(mod)
	moduleMaps[mod] = m
	return m
}

// runScriptVars runs src (a script importing module mod) with the given
// inputs and returns all globals. The compiled form of a script text is
// cached (compiled once, at the default MaxStringLen, with its inputs
// undefined); every run works on a Clone with the inputs Set, so each call
// gets a fresh VM and fresh globals.
var compiledCache = map[string]*tengo.Compiled{}

const defaultMaxStringLen = 2147483647

func runScriptVars(mod, src string, inputs map[string]tengo.Object) (map[string]tengo.Object, error) {
	names := make([]string, 0, len(inputs))
	for k := range inputs {
		names = append(names, k)
	}
	sort.Strings(names)
	key := mod + "\x00" + src + "\x00" + strings.Join(names, ",")
	tmpl := compiledCache[key]
	if tmpl == nil {
		s := tengo.NewScript([]byte(src))
		s.SetImports(modMap(mod))
		for _, k := range names {
			if err := s.Add(k, tengo.UndefinedValue); err != nil {
				return nil, fmt.Errorf("harness: Add(%s): %v", k, err)
			}
		}
		saved := tengo.MaxStringLen
		tengo.MaxStringLen = defaultMaxStringLen
		c, err := s.Compile()
		tengo.MaxStringLen = saved
		if err != nil {
			return nil, fmt.Errorf("harness: compile: %v", err)
		}
		compiledCache[key] = c
		tmpl = c
	}
	c := tmpl.Clone()
	for _, k := range names {
		if err := c.Set(k, inputs[k]); err != nil {
			return nil, fmt.Errorf("harness: Set(%s): %v", k, err)
		}
	}
	if err := runCompiled(c, src); err != nil {
		return nil, err
	}
	out := map[string]tengo.Object{}
	for _, v := range c.GetAll() {
		out[v.Name()] = v.Object()
	}
	return out, nil
}

// panicError is a Go panic that escaped from the VM.
type panicError struct{ msg string }

func (p panicError) Error() string { return "panic: " + p.msg }

// runCompiled runs the script in the calling goroutine (Compiled.Run) under
// recover and the call watchdog; Compiled.RunContext would do the same in a
// second goroutine, which only adds scheduling latency here.
func runCompiled(c *tengo.Compiled, what string) (err error) {
	wdCase.Store("script: " + what)
	wdStart.Store(time.Now().UnixNano())
	defer func() {
		wdStart.Store(0)
		if x := recover(); x != nil {
			err = panicError{fmt.Sprint(x)}
		}
	}()
	return c.Run()
}

// runScript returns the global "r" of the script.
func runScript(mod, src string, inputs map[string]tengo.Object) (tengo.Object, error) {
	vars, err := runScriptVars(mod, src, inputs)
	if err != nil {
		return nil, err
	}
	v := vars["r"]
	if v == nil {
		return nil, fmt.Errorf("harness: no result variable")
	}
	return v, nil
}

// callScript calls the entry from a script that imports its module. The
// function is selected by indexing the imported module with its name
// (`m[fname]`, equivalent to `m.name`), so that one compiled script serves
// every entry of a module with the same number of arguments.
func callScript(r *row, pattern string, args []tengo.Object) outcome {
	mod := r.mod
	var sb strings.Builder
	inputs := map[string]tengo.Object{"fname": strObj(r.name)}
	if r.pattern {
		mod = "text"
		sb.WriteString(`m := import("text"); re := m.re_compile(p); f := re[fname]; r := f(`)
		inputs["p"] = strObj(pattern)
	} else {
		sb.WriteString(`m := import("` + mod + `"); f := m[fname]; r := f(`)
	}
	for i, a := range args {
		if i > 0 {
			sb.WriteString(", ")
		}
		n := "a" + strconv.Itoa(i)
		sb.WriteString(n)
		inputs[n] = a
	}
	sb.WriteString(")")
	ret, err := runScript(mod, sb.String(), inputs)
	if err != nil {
		if strings.HasPrefix(err.Error(), "harness:") {
			return outcome{kind: "harness-error", msg: err.Error()}
		}
		return classifyScriptErr(err)
	}
	return classify(ret, nil)
}

// callable finds the CallableFunc of a row in the module maps at run time.
func callable(r *row, pattern string) (tengo.CallableFunc, string) {
	if r.pattern {
		f, ok := stdlib.BuiltinModules["text"]["re_compile"].(*tengo.UserFunction)
		if !ok {
			return nil, "text.re_compile is not a function"
		}
		obj, err := f.Value(strObj(pattern))
		if err != nil {
			return nil, "re_compile failed: " + err.Error()
		}
		m, ok := obj.(*tengo.ImmutableMap)
		if !ok {
			return nil, "re_compile(" + strconv.Quote(pattern) + ") returned " + descr(obj)
		}
		uf, ok := m.Value[r.name].(*tengo.UserFunction)
		if !ok {
			return nil, "Regexp object has no method " + r.name
		}
		return uf.Value, ""
	}
	m := stdlib.BuiltinModules[r.mod]
	if m == nil {
		return nil, "no builtin module " + r.mod
	}
	uf, ok := m[r.name].(*tengo.UserFunction)
	if !ok {
		return nil, fmt.Sprintf("module entry %s is %T, not a function", r.id(), m[r.name])
	}
	return uf.Value, ""
}

// ---------- comparison ----------

// agree reports "" when the observed outcome is what the documentation
// prescribes.
func agree(want, got outcome) string {
	if got.kind == "harness-error" {
		return got.msg
	}
	if d, ok := agreeHook(want, got); ok {
		return d
	}
	switch want.kind {
	case oValue:
		if got.kind != oValue || descr(want.val) != descr(got.val) {
			return fmt.Sprintf("expected %s, got %s", want, got)
		}
	case oErrVal:
		if got.kind != oErrVal || got.msg != want.msg {
			return fmt.Sprintf("expected %s, got %s", want, got)
		}
	case oRtErr:
		if got.kind != oRtErr || !strings.Contains(got.msg, want.msg) {
			return fmt.Sprintf("expected %s, got %s", want, got)
		}
	case oArity, oType, oLimit:
		if got.kind != want.kind {
			return fmt.Sprintf("expected %s, got %s", want, got)
		}
	default:
		return "harness: cannot judge expectation " + want.kind
	}
	return ""
}

// ---------- sibling rule (non-trivial cases) ----------

// sigKey groups rows that accept n arguments of the same kinds and return the
// same kind of result: the rows a wrong table entry could be confused with.
func sigKey(r *row, n int) string { return r.kinds[:n] + ">" + r.ret }

var siblingIndex map[string][]*row

func siblings(r *row, n int) []*row {
	if siblingIndex == nil {
		siblingIndex = map[string][]*row{}
		for _, x := range rows {
			if x.isConst || x.clock || x.ref == nil {
				continue
			}
			for k := x.min; k <= len(x.kinds); k++ {
				key := sigKey(x, k)
				siblingIndex[key] = append(siblingIndex[key], x)
			}
		}
	}
	return siblingIndex[sigKey(r, n)]
}

func refString(r *row, a A) (string, bool) {
	if r.dom != nil && r.dom(a) != domOK {
		return "", false
	}
	res, err, pan := safeRef(r, a)
	if pan != nil {
		return "", false
	}
	if err != nil {
		return "E:" + err.Error(), true
	}
	if re, ok := res.(rtErr); ok {
		return "R:" + re.msg, true
	}
	return descr(toObj(res)), true
}

// distinguishes: the tuple tells this row from (1) a sibling row of the same
// signature, (2) itself with two same-kind arguments transposed, (3) itself
// with an integer argument off by one. Any one suffices.
func distinguishes(r *row, a A) bool {
	own, ok := refString(r, a)
	if !ok {
		return false
	}
	for _, s := range siblings(r, len(a)) {
		if s == r || s.pattern != r.pattern {
			continue
		}
		if other, ok := refString(s, a); ok && other != own {
			return true
		}
	}
	for i := 0; i < len(a); i++ {
		for j := i + 1; j < len(a); j++ {
			if r.kinds[i] == r.kinds[j] {
				b := append(A(nil), a...)
				b[i], b[j] = b[j], b[i]
				if other, ok := refString(r, b); ok && other != own {
					return true
				}
			}
		}
	}
	for i := 0; i < len(a); i++ {
		b := append(A(nil), a...)
		switch v := a[i].(type) {
		case int:
			b[i] = v - 1
		case int64:
			b[i] = v - 1
		default:
			continue
		}
		if other, ok := refString(r, b); ok && other != own {
			return true
		}
	}
	return false
}
