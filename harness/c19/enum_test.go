package c19

// The "enum" module is a source module (tengo code); it has no Go function
// behind it. Its functions are specified here by direct Go implementations of
// the sentences of docs/stdlib-enum.md, with the callbacks supplied as
// compiled tengo closures (each has a Go mirror). Calls go through a script
// that imports the module (stdlib.GetModuleMap("enum")).
//
// Corners the docs leave open follow srcmod_enum.tengo and are marked
// "(implementation)".

import (
	"fmt"
	"sort"
	"strconv"
	"strings"
	"testing"

	"github.com/d5/tengo/v2"
	"pgregory.net/rapid"

	"verifharness/ev"
)

type pair struct{ k, v tengo.Object }

// items: "key is an int index if x is array, a string key if x is map".
func items(x tengo.Object) (ps []pair, isArr, isMap bool) {
	switch v := x.(type) {
	case *tengo.Array:
		for i, e := range v.Value {
			ps = append(ps, pair{intObj(int64(i)), e})
		}
		return ps, true, false
	case *tengo.ImmutableArray:
		for i, e := range v.Value {
			ps = append(ps, pair{intObj(int64(i)), e})
		}
		return ps, true, false
	case *tengo.Map:
		for _, k := range sortedKeys(v.Value) {
			ps = append(ps, pair{strObj(k), v.Value[k]})
		}
		return ps, false, true
	case *tengo.ImmutableMap:
		for _, k := range sortedKeys(v.Value) {
			ps = append(ps, pair{strObj(k), v.Value[k]})
		}
		return ps, false, true
	}
	return nil, false, false
}

func truthy(o tengo.Object) bool { return !o.IsFalsy() }

type callback struct {
	name string
	src  string
	fn   func(k, v tengo.Object) tengo.Object
}

var callbacks = []*callback{
	{"value", `func(k, v) { return v }`, func(k, v tengo.Object) tengo.Object { return v }},
	{"not-value", `func(k, v) { return !v }`, func(k, v tengo.Object) tengo.Object { return boolObj(!truthy(v)) }},
	{"key", `func(k, v) { return k }`, func(k, v tengo.Object) tengo.Object { return k }},
	{"is-int", `func(k, v) { return is_int(v) }`, func(k, v tengo.Object) tengo.Object {
		_, ok := v.(*tengo.Int)
		return boolObj(ok)
	}},
	{"gt2", `func(k, v) { return is_int(v) && v > 2 }`, func(k, v tengo.Object) tengo.Object {
		i, ok := v.(*tengo.Int)
		return boolObj(ok && i.Value > 2)
	}},
	{"pair", `func(k, v) { return [k, v] }`, func(k, v tengo.Object) tengo.Object {
		return &tengo.Array{Value: []tengo.Object{k, v}}
	}},
	{"nothing", `func(k, v) { }`, func(k, v tengo.Object) tengo.Object { return tengo.UndefinedValue }},
	{"enum.key", `enum.key`, func(k, v tengo.Object) tengo.Object { return k }},
	{"enum.value", `enum.value`, func(k, v tengo.Object) tengo.Object { return v }},
	{"is-string-key", `func(k, v) { return is_string(k) }`, func(k, v tengo.Object) tengo.Object {
		_, ok := k.(*tengo.String)
		return boolObj(ok)
	}},
}

func callbackByName(n string) *callback {
	for _, c := range callbacks {
		if c.name == n {
			return c
		}
	}
	return nil
}

type enumCase struct {
	fn    string
	x     tengo.Object
	arg   tengo.Object // chunk size / at key / second value of key, value
	cb    *callback
	nargs int // -1: the documented number; otherwise that many arguments are passed
}

type enumPayload struct {
	Fn    string `json:"fn"`
	X     *val   `json:"x"`
	Arg   *val   `json:"arg,omitempty"`
	CB    string `json:"cb,omitempty"`
	NArgs int    `json:"nargs"`
	Echo  string `json:"echo,omitempty"`
}

func (c *enumCase) payload() enumPayload {
	p := enumPayload{Fn: c.fn, X: toVal(c.x), NArgs: c.nargs, Echo: c.String()}
	if c.arg != nil {
		p.Arg = toVal(c.arg)
	}
	if c.cb != nil {
		p.CB = c.cb.name
	}
	return p
}

func (c *enumCase) String() string {
	s := "enum." + c.fn + "(" + descr(c.x)
	if c.cb != nil {
		s += ", " + c.cb.src
	}
	if c.arg != nil {
		s += ", " + descr(c.arg)
	}
	if c.nargs >= 0 {
		s += fmt.Sprintf(" /* %d args passed */", c.nargs)
	}
	return s + ")"
}

// enumWant: what the docs prescribe.
type enumWant struct {
	kind    string         // "value", "oneof", "perm", "out"
	val     tengo.Object   // value
	set     []tengo.Object // oneof: any of these; perm: these in any order
	log     []pair         // callback invocations
	logMode string         // "exact" (arrays), "all" (maps, full iteration: any order), "some" (maps, early exit: distinct items, any order)
}

func (w enumWant) canon() string {
	var sb strings.Builder
	sb.WriteString(w.kind + ":")
	if w.val != nil {
		sb.WriteString(descr(w.val))
	}
	ds := make([]string, len(w.set))
	for i, o := range w.set {
		ds[i] = descr(o)
	}
	sort.Strings(ds)
	sb.WriteString(strings.Join(ds, "|"))
	return sb.String()
}

func undefinedWant() enumWant {
	return enumWant{kind: "value", val: tengo.UndefinedValue, logMode: "exact"}
}

type enumRow struct {
	shape string // "xf": (x, fn); "xa": (x, arg); "kv": (k, v)
	ref   func(c *enumCase) enumWant
}

// scan runs fn over the items until stop says so; for maps the order is not
// defined, so an early exit is only reported as such.
func scan(c *enumCase, stop func(r tengo.Object) bool) (ps []pair, isMap bool, stoppedAt int, results []tengo.Object) {
	ps, _, isMap = items(c.x)
	stoppedAt = -1
	for i, p := range ps {
		r := c.cb.fn(p.k, p.v)
		results = append(results, r)
		if stoppedAt < 0 && stop != nil && stop(r) {
			stoppedAt = i
			if !isMap {
				break
			}
		}
	}
	return
}

func logFor(ps []pair, isMap bool, stoppedAt int) ([]pair, string) {
	if !isMap {
		if stoppedAt >= 0 {
			return ps[:stoppedAt+1], "exact"
		}
		return ps, "exact"
	}
	if stoppedAt >= 0 {
		return ps, "some"
	}
	return ps, "all"
}

var enumRows = map[string]*enumRow{
	// all: "returns true if fn evaluates to a truthy value on all of the
	// items in x. It returns undefined if x is not enumerable."
	"all": {"xf", func(c *enumCase) enumWant {
		ps, isArr, isMap := items(c.x)
		if !isArr && !isMap {
			return undefinedWant()
		}
		_, _, stoppedAt, _ := scan(c, func(r tengo.Object) bool { return !truthy(r) })
		lg, mode := logFor(ps, isMap, stoppedAt)
		return enumWant{kind: "value", val: boolObj(stoppedAt < 0), log: lg, logMode: mode}
	}},
	// any: "... truthy value on any of the items"
	"any": {"xf", func(c *enumCase) enumWant {
		ps, isArr, isMap := items(c.x)
		if !isArr && !isMap {
			return undefinedWant()
		}
		_, _, stoppedAt, _ := scan(c, truthy)
		lg, mode := logFor(ps, isMap, stoppedAt)
		return enumWant{kind: "value", val: boolObj(stoppedAt >= 0), log: lg, logMode: mode}
	}},
	// each: "iterates over elements of x and invokes fn for each element ...
	// does not iterate and returns undefined if x is not enumerable" (its
	// result is not documented; it has none: undefined (implementation))
	"each": {"xf", func(c *enumCase) enumWant {
		ps, isArr, isMap := items(c.x)
		if !isArr && !isMap {
			return undefinedWant()
		}
		lg, mode := logFor(ps, isMap, -1)
		return enumWant{kind: "value", val: tengo.UndefinedValue, log: lg, logMode: mode}
	}},
	// filter: "returning an array of all elements fn returns truthy for ...
	// It returns undefined if x is not array."
	"filter": {"xf", func(c *enumCase) enumWant {
		ps, isArr, _ := items(c.x)
		if !isArr {
			return undefinedWant()
		}
		_, _, _, results := scan(c, nil)
		out := &tengo.Array{Value: []tengo.Object{}}
		for i, p := range ps {
			if truthy(results[i]) {
				out.Value = append(out.Value, p.v)
			}
		}
		return enumWant{kind: "value", val: out, log: ps, logMode: "exact"}
	}},
	// find: "returning value of the first element fn returns truthy for"
	// (undefined when there is none (implementation))
	"find": {"xf", func(c *enumCase) enumWant { return findWant(c, false) }},
	// find_key: "returning key or index of the first element fn returns truthy for"
	"find_key": {"xf", func(c *enumCase) enumWant { return findWant(c, true) }},
	// map: "creates an array of values by running each element in x through fn"
	"map": {"xf", func(c *enumCase) enumWant {
		ps, isArr, isMap := items(c.x)
		if !isArr && !isMap {
			return undefinedWant()
		}
		_, _, _, results := scan(c, nil)
		if isMap {
			return enumWant{kind: "perm", set: results, log: ps, logMode: "all"}
		}
		if results == nil {
			results = []tengo.Object{}
		}
		return enumWant{kind: "value", val: &tengo.Array{Value: results}, log: ps, logMode: "exact"}
	}},
	// chunk: "returns an array of elements split into groups the length of
	// size. If x can't be split evenly, the final chunk will be the remaining
	// elements. It returns undefined if x is not array." A size that is
	// falsy gives undefined (implementation); any other size that is not a
	// positive int is outside the documented domain.
	"chunk": {"xa", func(c *enumCase) enumWant {
		ps, isArr, _ := items(c.x)
		if !isArr || !truthy(c.arg) {
			return undefinedWant()
		}
		sz, ok := c.arg.(*tengo.Int)
		if !ok || sz.Value < 1 {
			return enumWant{kind: "out"}
		}
		out := &tengo.Array{Value: []tengo.Object{}}
		for i := 0; i < len(ps); i += int(sz.Value) {
			ch := &tengo.Array{}
			for j := i; j < len(ps) && j < i+int(sz.Value); j++ {
				ch.Value = append(ch.Value, ps[j].v)
			}
			out.Value = append(out.Value, ch)
		}
		return enumWant{kind: "value", val: out, logMode: "exact"}
	}},
	// at: "returns an element at the given index (if x is array) or key (if
	// x is map). It returns undefined if x is not enumerable." A key of the
	// wrong type, an index out of range or a missing key give undefined
	// (implementation).
	"at": {"xa", func(c *enumCase) enumWant {
		ps, isArr, isMap := items(c.x)
		if isArr {
			if i, ok := c.arg.(*tengo.Int); ok && i.Value >= 0 && i.Value < int64(len(ps)) {
				return enumWant{kind: "value", val: ps[i.Value].v, logMode: "exact"}
			}
		}
		if isMap {
			if k, ok := c.arg.(*tengo.String); ok {
				for _, p := range ps {
					if p.k.(*tengo.String).Value == k.Value {
						return enumWant{kind: "value", val: p.v, logMode: "exact"}
					}
				}
			}
		}
		return undefinedWant()
	}},
	// key: "returns the first argument"; value: "returns the second argument"
	"key":   {"kv", func(c *enumCase) enumWant { return enumWant{kind: "value", val: c.x, logMode: "exact"} }},
	"value": {"kv", func(c *enumCase) enumWant { return enumWant{kind: "value", val: c.arg, logMode: "exact"} }},
}

func findWant(c *enumCase, key bool) enumWant {
	ps, isArr, isMap := items(c.x)
	if !isArr && !isMap {
		return undefinedWant()
	}
	sel := func(p pair) tengo.Object {
		if key {
			return p.k
		}
		return p.v
	}
	_, _, stoppedAt, results := scan(c, truthy)
	lg, mode := logFor(ps, isMap, stoppedAt)
	if stoppedAt < 0 {
		return enumWant{kind: "value", val: tengo.UndefinedValue, log: lg, logMode: mode}
	}
	if !isMap {
		return enumWant{kind: "value", val: sel(ps[stoppedAt]), log: lg, logMode: mode}
	}
	var cands []tengo.Object
	for i, p := range ps {
		if truthy(results[i]) {
			cands = append(cands, sel(p))
		}
	}
	return enumWant{kind: "oneof", set: cands, log: lg, logMode: mode}
}

func sortedEnumNames() []string {
	names := make([]string, 0, len(enumRows))
	for n := range enumRows {
		names = append(names, n)
	}
	sort.Strings(names)
	return names
}

// ---------- running ----------

// script: one script text per (shape, number of arguments); the function and
// the callback are selected by name at run time (`enum[fname]`, `cbs[cbname]`)
// so that the compiled form can be reused.
func (c *enumCase) script() (string, map[string]tengo.Object) {
	row := enumRows[c.fn]
	var sb strings.Builder
	inputs := map[string]tengo.Object{"x": c.x, "fname": strObj(c.fn)}
	sb.WriteString("enum := import(\"enum\")\nlog := []\nf := enum[fname]\n")
	var call []string
	switch row.shape {
	case "xf":
		sb.WriteString("cbs := {\n")
		for i, cb := range callbacks {
			sb.WriteString("  " + strconv.Quote(cb.name) + ": " + cb.src)
			if i < len(callbacks)-1 {
				sb.WriteString(",")
			}
			sb.WriteString("\n")
		}
		sb.WriteString("}\ncb := cbs[cbname]\n")
		sb.WriteString("w := func(k, v) { log = append(log, [k, v]); return cb(k, v) }\n")
		inputs["cbname"] = strObj(c.cb.name)
		call = []string{"x", "w"}
	default:
		inputs["a"] = c.arg
		call = []string{"x", "a"}
	}
	if c.nargs >= 0 {
		for len(call) < c.nargs {
			call = append(call, "undefined")
		}
		call = call[:c.nargs]
	}
	sb.WriteString("r := f(" + strings.Join(call, ", ") + ")\n")
	return sb.String(), inputs
}

func sortedDescr(xs []tengo.Object) []string {
	out := make([]string, len(xs))
	for i, x := range xs {
		out[i] = descr(x)
	}
	sort.Strings(out)
	return out
}

// run returns "" when the call behaved as documented.
func (c *enumCase) run() string {
	row := enumRows[c.fn]
	if row == nil {
		return "unreferenced entry: enum." + c.fn
	}
	src, inputs := c.script()
	vars, err := runScriptVars("enum", src, inputs)
	classes := []string{"entry:enum." + c.fn, "path:script"}
	if c.nargs >= 0 && c.nargs != 2 {
		// all enum functions take two arguments
		if err == nil || !strings.Contains(err.Error(), "wrong number of arguments") {
			return fmt.Sprintf("%s: expected run-time error \"wrong number of arguments\", got r=%v err=%v", c, vars["r"], err)
		}
		ev.Case(c.String(), false, append(classes, "mode:arity", "want:"+oArity)...)
		return ""
	}
	if err != nil && strings.HasPrefix(err.Error(), "harness:") {
		return err.Error()
	}
	want := row.ref(c)
	if want.kind == "out" {
		// any outcome is accepted (a call that does not return trips the watchdog)
		k := "value"
		if _, isPanic := err.(panicError); isPanic {
			k = "panic"
		} else if err != nil {
			k = "run-time-error"
		}
		ev.Note("totality:" + k + ":enum." + c.fn)
		ev.Case(c.String(), false, append(classes, "mode:totality", "want:"+oOut)...)
		return ""
	}
	if err != nil {
		return fmt.Sprintf("%s: run-time error %v", c, err)
	}
	got := vars["r"]
	if got == nil {
		return fmt.Sprintf("%s: no result", c)
	}
	switch want.kind {
	case "value":
		if descr(got) != descr(want.val) {
			return fmt.Sprintf("%s: expected %s, got %s", c, descr(want.val), descr(got))
		}
	case "oneof":
		ok := false
		for _, o := range want.set {
			if descr(o) == descr(got) {
				ok = true
			}
		}
		if !ok {
			return fmt.Sprintf("%s: expected one of %v, got %s", c, sortedDescr(want.set), descr(got))
		}
	case "perm":
		arr, ok := got.(*tengo.Array)
		if !ok || strings.Join(sortedDescr(arr.Value), "\x00") != strings.Join(sortedDescr(want.set), "\x00") {
			return fmt.Sprintf("%s: expected an array holding %v in some order, got %s", c, sortedDescr(want.set), descr(got))
		}
	}
	// the callback invocations
	if row.shape == "xf" {
		lg, ok := vars["log"].(*tengo.Array)
		if !ok {
			return fmt.Sprintf("%s: callback log is %s", c, descr(vars["log"]))
		}
		wantLog := make([]tengo.Object, len(want.log))
		for i, p := range want.log {
			wantLog[i] = &tengo.Array{Value: []tengo.Object{p.k, p.v}}
		}
		switch want.logMode {
		case "exact":
			if descr(lg) != descr(&tengo.Array{Value: wantLog}) {
				return fmt.Sprintf("%s: fn was invoked with %s, documented %s", c, descr(lg), descr(&tengo.Array{Value: wantLog}))
			}
		case "all":
			if strings.Join(sortedDescr(lg.Value), "\x00") != strings.Join(sortedDescr(wantLog), "\x00") {
				return fmt.Sprintf("%s: fn was invoked with %s, documented: every item once %v", c, descr(lg), sortedDescr(wantLog))
			}
		case "some":
			have := map[string]int{}
			for _, d := range sortedDescr(wantLog) {
				have[d]++
			}
			for _, d := range sortedDescr(lg.Value) {
				have[d]--
				if have[d] < 0 {
					return fmt.Sprintf("%s: fn was invoked with %s: not distinct items of x", c, descr(lg))
				}
			}
		}
	}
	// non-trivial: the case tells the function from every sibling of its shape
	nontrivial := true
	for name, other := range enumRows {
		if name == c.fn || other.shape != row.shape {
			continue
		}
		if other.ref(c).canon() == want.canon() {
			nontrivial = false
		}
	}
	classes = append(classes, "mode:typed", "want:value")
	if nontrivial {
		classes = append(classes, "distinguishing")
	}
	ev.Case(c.String(), nontrivial, classes...)
	if nontrivial && ev.WantSample() && ev.Hash(c.String())%41 == 0 {
		ev.Sample(map[string]string{"call": c.String(), "path": "script", "expected": want.canon()})
	}
	return ""
}

// ---------- generation ----------

var enumElems = []tengo.Object{intObj(0), intObj(1), intObj(2), intObj(3), intObj(4), strObj(""), strObj("a"), tengo.TrueValue,
	tengo.FalseValue, tengo.UndefinedValue, fltObj(1.5), &tengo.Array{Value: []tengo.Object{}}, &tengo.Array{Value: []tengo.Object{intObj(1)}}}

func genEnumX(t *rapid.T) tengo.Object {
	k := rapid.IntRange(0, 9).Draw(t, "xk")
	n := rapid.IntRange(0, 5).Draw(t, "xn")
	elems := make([]tengo.Object, n)
	for i := range elems {
		elems[i] = pick(t, "el", enumElems...)
	}
	switch {
	case k <= 2:
		return &tengo.Array{Value: elems}
	case k <= 4:
		return &tengo.ImmutableArray{Value: elems}
	case k <= 7:
		m := map[string]tengo.Object{}
		for _, e := range elems {
			m[pick(t, "mk", "", "a", "b", "c", "k", "0")] = e
		}
		if k == 7 {
			return &tengo.ImmutableMap{Value: m}
		}
		return &tengo.Map{Value: m}
	default:
		// not enumerable
		return pick[tengo.Object](t, "nonenum", intObj(3), strObj("abc"), &tengo.Bytes{Value: []byte("ab")}, tengo.UndefinedValue,
			fltObj(2.5), tengo.TrueValue, &tengo.Char{Value: 'x'}, &tengo.Error{Value: strObj("e")})
	}
}

func drawEnumCase(t *rapid.T, fn string) *enumCase {
	row := enumRows[fn]
	c := &enumCase{fn: fn, nargs: -1, x: genEnumX(t)}
	switch row.shape {
	case "xf":
		c.cb = callbacks[rapid.IntRange(0, len(callbacks)-1).Draw(t, "cb")]
	case "xa":
		if fn == "chunk" {
			c.arg = pick[tengo.Object](t, "size", intObj(1), intObj(2), intObj(3), intObj(2), intObj(5), intObj(100), intObj(0),
				intObj(-1), fltObj(1.5), strObj("2"), strObj(""), tengo.UndefinedValue, tengo.TrueValue, tengo.FalseValue)
		} else {
			c.arg = pick[tengo.Object](t, "key", intObj(0), intObj(1), intObj(2), intObj(4), intObj(5), intObj(-1), strObj("a"), strObj("b"),
				strObj(""), strObj("0"), strObj("zz"), fltObj(1), tengo.UndefinedValue, tengo.TrueValue, &tengo.Char{Value: 'a'})
		}
	case "kv":
		c.x = pick(t, "k", enumElems...)
		c.arg = pick(t, "v", enumElems...)
	}
	if rapid.IntRange(0, 11).Draw(t, "arity") == 0 {
		c.nargs = pick(t, "nargs", 0, 1, 3, 4)
	}
	return c
}

func propEnum(t *rapid.T, test, fn string) {
	c := drawEnumCase(t, fn)
	if v := c.run(); v != "" {
		ev.Fail(t, test, c.payload(), "%s", v)
	}
}

// TestEnum: every function the enum module exports (enumerated at run time).
func TestEnum(t *testing.T) {
	checkTable(t, "TestEnum")
	es, _ := entries()
	var names []string
	for _, e := range es {
		if e.mod == "enum" {
			names = append(names, e.name)
		}
	}
	rapid.Check(t, func(t *rapid.T) {
		propEnum(t, "TestEnum", names[rapid.IntRange(0, len(names)-1).Draw(t, "entry")])
	})
}

func replayEnum(t *testing.T, path string) string {
	var p enumPayload
	if _, err := ev.LoadReplay(path, &p); err != nil {
		t.Fatalf("load %s: %v", path, err)
	}
	c := &enumCase{fn: p.Fn, x: p.X.obj(), nargs: p.NArgs}
	if p.Arg != nil {
		c.arg = p.Arg.obj()
	}
	if p.CB != "" {
		c.cb = callbackByName(p.CB)
		if c.cb == nil {
			t.Fatalf("%s: unknown callback %q", path, p.CB)
		}
	}
	return c.run()
}
