package c19

// Per-row generators of right-typed argument tuples with distinguishing
// power, and the mutators that turn a right-typed tuple into a coerced,
// wrong-typed, wrong-arity or boundary tuple.

import (
	"encoding/base64"
	"encoding/hex"
	"math"
	"strconv"
	"strings"
	"time"
	"unicode/utf8"

	"github.com/d5/tengo/v2"
	"pgregory.net/rapid"

	"verifharness/tv"
)

func pick[T any](t *rapid.T, label string, xs ...T) T {
	return xs[rapid.IntRange(0, len(xs)-1).Draw(t, label)]
}

func objs(xs ...interface{}) []tengo.Object {
	out := make([]tengo.Object, len(xs))
	for i, x := range xs {
		out[i] = toObj(x)
	}
	return out
}

// ---------- strings over a tiny alphabet ----------

var tinyAlphabet = []rune("abA .é")

func tinyStr(t *rapid.T, label string, min, max int) string {
	return rapid.StringOfN(rapid.RuneFrom(tinyAlphabet), min, max, -1).Draw(t, label)
}

// subject strings: random, or with the same material at both ends so that
// left/right, prefix/suffix, first/last variants give different answers.
func subject(t *rapid.T) string {
	switch rapid.IntRange(0, 3).Draw(t, "subj") {
	case 0:
		e := tinyStr(t, "edge", 1, 2)
		return e + tinyStr(t, "mid", 0, 4) + e
	case 1:
		e := tinyStr(t, "edgeL", 0, 2)
		return e + tinyStr(t, "mid", 0, 4) + tinyStr(t, "edgeR", 0, 2)
	default:
		return tinyStr(t, "s", 0, 8)
	}
}

func swapCase(s string) string {
	return strings.Map(func(r rune) rune {
		switch {
		case r >= 'a' && r <= 'z':
			return r - 32
		case r >= 'A' && r <= 'Z':
			return r + 32
		case r == 'é':
			return 'É'
		}
		return r
	}, s)
}

// companion: a second string related to s (substring, prefix, suffix, cutset,
// itself, other case, empty, unrelated).
func companion(t *rapid.T, s string) string {
	switch rapid.IntRange(0, 8).Draw(t, "comp") {
	case 0:
		if len(s) == 0 {
			return ""
		}
		i := rapid.IntRange(0, len(s)).Draw(t, "i")
		j := rapid.IntRange(i, len(s)).Draw(t, "j")
		return s[i:j] // byte offsets: may cut é in two (invalid UTF-8 on purpose)
	case 1:
		return s[:rapid.IntRange(0, len(s)).Draw(t, "p")]
	case 2:
		return s[rapid.IntRange(0, len(s)).Draw(t, "q"):]
	case 3:
		return tinyStr(t, "cut", 1, 3)
	case 4:
		return s
	case 5:
		return swapCase(s)
	case 6:
		return ""
	case 7:
		rs := []rune(s)
		if len(rs) == 0 {
			return "a"
		}
		return string(rs[rapid.IntRange(0, len(rs)-1).Draw(t, "r")])
	default:
		return tinyStr(t, "other", 0, 3)
	}
}

func genStrPair(t *rapid.T, r *row, n int) []tengo.Object {
	s := subject(t)
	c := companion(t, s)
	if rapid.IntRange(0, 7).Draw(t, "swap") == 0 {
		s, c = c, s
	}
	return objs(s, c)
}

var countPool = []int64{-1, 0, 1, 2, 3, 4, 7, -2, 100}

func smallCount(t *rapid.T, label string) int64 { return pick(t, label, countPool...) }

func genStrPairN(t *rapid.T, r *row, n int) []tengo.Object {
	s := subject(t)
	c := companion(t, s)
	return objs(s, c, smallCount(t, "n"))
}

var caseAlphabet = []rune("abAB \t\n.éßǆǅ1_- ")

func genCaseStr(t *rapid.T, r *row, n int) []tengo.Object {
	if rapid.IntRange(0, 5).Draw(t, "wild") == 0 {
		return objs(tv.GenString(false).Draw(t, "any"))
	}
	return objs(rapid.StringOfN(rapid.RuneFrom(caseAlphabet), 0, 10, -1).Draw(t, "s"))
}

func genQuoted(t *rapid.T, r *row, n int) []tengo.Object {
	s := tv.GenString(false).Draw(t, "raw")
	switch rapid.IntRange(0, 8).Draw(t, "qk") {
	case 0, 1:
		return objs(strconv.Quote(s))
	case 2:
		return objs(strconv.QuoteToASCII(s))
	case 3:
		return objs("`" + s + "`")
	case 4:
		rs := []rune(s)
		if len(rs) == 0 {
			rs = []rune{'x'}
		}
		return objs(strconv.QuoteRune(rs[0]))
	case 5:
		q := strconv.Quote(s)
		return objs(q[:rapid.IntRange(0, len(q)).Draw(t, "cut")])
	case 6:
		return objs(pick(t, "bad", `'ab'`, `"\x"`, `"\u12"`, `"a"b"`, "'", `''`, `"`, `"\400"`, `"\'"`, `'\"'`, `"\z"`, "``", `""`, "`a\rb`"))
	default:
		return objs(s)
	}
}

func genJoin(t *rapid.T, r *row, n int) []tengo.Object {
	k := rapid.IntRange(0, 4).Draw(t, "k")
	xs := make([]tengo.Object, 0, k)
	for i := 0; i < k; i++ {
		if rapid.IntRange(0, 7).Draw(t, "coerced") == 0 {
			xs = append(xs, pick[tengo.Object](t, "ce", intObj(12), tengo.TrueValue, &tengo.Char{Value: 'é'}, &tengo.Bytes{Value: []byte("b.")}, fltObj(1.5)))
		} else {
			xs = append(xs, strObj(tinyStr(t, "el", 0, 3)))
		}
	}
	var arr tengo.Object = &tengo.Array{Value: xs}
	if rapid.Bool().Draw(t, "imm") {
		arr = &tengo.ImmutableArray{Value: xs}
	}
	return []tengo.Object{arr, strObj(tinyStr(t, "sep", 0, 2))}
}

func genRepeat(t *rapid.T, r *row, n int) []tengo.Object {
	return objs(tinyStr(t, "s", 0, 4), pick[int64](t, "count", 0, 1, 2, 3, 5, 17))
}

func genReplace(t *rapid.T, r *row, n int) []tengo.Object {
	s := subject(t)
	return objs(s, companion(t, s), tinyStr(t, "new", 0, 3), smallCount(t, "n"))
}

func genSubstr(t *rapid.T, r *row, n int) []tengo.Object {
	s := tinyStr(t, "s", 0, 8)
	lo := rapid.Int64Range(-2, int64(len(s))+2).Draw(t, "lo")
	if n == 2 {
		return objs(s, lo)
	}
	return objs(s, lo, rapid.Int64Range(-2, int64(len(s))+2).Draw(t, "hi"))
}

func genPad(t *rapid.T, r *row, n int) []tengo.Object {
	s := tinyStr(t, "s", 0, 5)
	padLen := rapid.Int64Range(-1, 14).Draw(t, "padlen")
	if n == 2 {
		return objs(s, padLen)
	}
	return objs(s, padLen, tinyStr(t, "pad", 0, 3))
}

var numStrPool = []string{"12", "-7", "+3", "0", "-0", "007", "0x1f", "0X1F", "1e3", "9223372036854775807", "9223372036854775808",
	"-9223372036854775808", "-9223372036854775809", "", " 1", "1 ", "1_000", "0b101", "0o17", "017", "true", "T", "t", "TRUE", "True",
	"false", "F", "f", "FALSE", "False", "1", "tRuE", "yes", "1.5", "inf", "-Inf", "NaN", "1e400", "3.4028236e38", "3.4028235e38",
	"1e-50", "0x1p-2", "0x1.8p1", ".5", "5.", "1e", "z", "zz", "-z", "7f", "-80", "127", "128", "255", "256", "32768", "2147483648",
	"10", "11", "101", "a", "A", "1__0", "+", "-", "١٢", "0.1", "16777217", "1.0000000596046448"}

func numStr(t *rapid.T) string {
	if rapid.IntRange(0, 4).Draw(t, "rnd") == 0 {
		return rapid.StringOfN(rapid.RuneFrom([]rune("0123456789abcdefxz+-._ eE")), 0, 8, -1).Draw(t, "num")
	}
	return pick(t, "numstr", numStrPool...)
}

func genNumStr(t *rapid.T, r *row, n int) []tengo.Object { return objs(numStr(t)) }

func genParseFloat(t *rapid.T, r *row, n int) []tengo.Object {
	return objs(numStr(t), pick[int64](t, "bits", 64, 32, 64, 32, 0, 16, -1))
}

func genParseInt(t *rapid.T, r *row, n int) []tengo.Object {
	return objs(numStr(t), pick[int64](t, "base", 10, 0, 2, 8, 16, 36, 35, 1, 37, -1, 3),
		pick[int64](t, "bits", 64, 0, 8, 16, 32, 63, 65, -1, 1))
}

func genFormatFloat(t *rapid.T, r *row, n int) []tengo.Object {
	return objs(tv.GenFloat64(false).Draw(t, "f"),
		pick(t, "fmt", "e", "E", "f", "g", "G", "b", "x", "X", "ff", "ge", "q", "%", "é"),
		rapid.Int64Range(-1, 20).Draw(t, "prec"), pick[int64](t, "bits", 64, 32))
}

func genFormatInt(t *rapid.T, r *row, n int) []tengo.Object {
	return objs(tv.GenInt64().Draw(t, "i"), rapid.Int64Range(2, 36).Draw(t, "base"))
}

// ---------- regular expressions ----------

var reAtoms = []string{"a", "b", "A", ".", "[ab]", "[^a]", `\s`, "é", `\.`, " ", `\w`, `\b`}
var reInvalid = []string{"(", ")", "[", "a**", `\`, "a{2,1}", "(?P<n>", "[b-a]", "*", "(?z)", "\xff", "a{1001}"}

func rePiece(t *rapid.T, depth int) string {
	var atom string
	k := rapid.IntRange(0, 9).Draw(t, "pk")
	switch {
	case k <= 5 || depth <= 0:
		atom = pick(t, "atom", reAtoms...)
	case k == 6:
		atom = "(" + reSeq(t, depth-1) + ")"
	case k == 7:
		atom = "(?:" + reSeq(t, depth-1) + ")"
	case k == 8:
		atom = "(" + reSeq(t, depth-1) + "|" + reSeq(t, depth-1) + ")"
	default:
		atom = "(?P<x>" + reSeq(t, depth-1) + ")"
	}
	return atom + pick(t, "op", "", "", "", "*", "+", "?", "*?", "{2}", "{1,2}")
}

func reSeq(t *rapid.T, depth int) string {
	n := rapid.IntRange(0, 3).Draw(t, "len")
	var sb strings.Builder
	for i := 0; i < n; i++ {
		sb.WriteString(rePiece(t, depth))
	}
	return sb.String()
}

func rePattern(t *rapid.T, allowInvalid bool) string {
	if allowInvalid && rapid.IntRange(0, 7).Draw(t, "inv") == 0 {
		return reSeq(t, 1) + pick(t, "bad", reInvalid...)
	}
	p := reSeq(t, 2)
	switch rapid.IntRange(0, 9).Draw(t, "wrap") {
	case 0:
		p = "^" + p
	case 1:
		p = p + "$"
	case 2:
		p = p + "|" + reSeq(t, 1)
	case 3:
		p = "(?i)" + p
	}
	return p
}

var replPool = []string{"x", "", "$1", "${1}y", "$0$0", "$", "$$", "[$0]", "$x", "${x}", "$2", "é", "$1$1$1", "ab"}

func genRegexpCall(t *rapid.T, r *row, n int) []tengo.Object {
	p := rePattern(t, !r.pattern)
	text := subject(t)
	switch r.name {
	case "re_compile":
		return objs(p)
	case "re_match", "match":
		return objs(p, text)
	case "re_replace", "replace":
		return objs(p, text, pick(t, "repl", replPool...))
	default: // re_find/find, re_split/split
		if n == 2 {
			return objs(p, text)
		}
		return objs(p, text, pick[int64](t, "count", -1, 0, 1, 2, 3, 5))
	}
}

// ---------- numbers ----------

var angleish = []float64{0, 0.25, 0.5, 0.75, 1, -1, -0.5, 1.5, 2, 3, math.Pi, math.Pi / 2, -math.Pi, 10, 100, 0.1, 1e-9, 2.5, -2.5, 3.5, 0.9999999, 1.0000001}

func floatArg(t *rapid.T, label string) float64 {
	if rapid.IntRange(0, 2).Draw(t, label+"k") == 0 {
		return pick(t, label, angleish...)
	}
	return tv.GenFloat64(false).Draw(t, label)
}

func genFloats(t *rapid.T, r *row, n int) []tengo.Object {
	out := make([]tengo.Object, n)
	for i := range out {
		out[i] = fltObj(floatArg(t, "f"+strconv.Itoa(i)))
	}
	return out
}

func genSmallInts(t *rapid.T, r *row, n int) []tengo.Object {
	if rapid.IntRange(0, 3).Draw(t, "edge") == 0 {
		return objs(tv.GenInt64().Draw(t, "i"))
	}
	return objs(rapid.Int64Range(-400, 400).Draw(t, "i"))
}

func genIsInf(t *rapid.T, r *row, n int) []tengo.Object {
	return objs(pick(t, "f", math.Inf(1), math.Inf(-1), math.NaN(), 0, 1, -1, math.MaxFloat64),
		pick[int64](t, "sign", -1, 0, 1, 5, -7, math.MinInt64, math.MaxInt64))
}

func genBessel(t *rapid.T, r *row, n int) []tengo.Object {
	order := rapid.Int64Range(-12, 12).Draw(t, "n")
	if rapid.IntRange(0, 9).Draw(t, "big") == 0 {
		order = pick[int64](t, "bign", 400, -400, 100, 37)
	}
	return objs(order, floatArg(t, "x"))
}

func genLdexp(t *rapid.T, r *row, n int) []tengo.Object {
	e := rapid.Int64Range(-1100, 1100).Draw(t, "exp")
	if rapid.IntRange(0, 5).Draw(t, "edge") == 0 {
		e = tv.GenInt64().Draw(t, "e2")
	}
	return objs(floatArg(t, "frac"), e)
}

// ---------- bytes / encodings ----------

var spicyBytes = []byte{0xfb, 0xff, 0xfe, 0x3e, 0x3f, 0x00, 'a', 'M', 0x7f, 0xef}

func someBytes(t *rapid.T) []byte {
	if rapid.IntRange(0, 3).Draw(t, "anyb") == 0 {
		return tv.GenBytes().Draw(t, "bytes")
	}
	return rapid.SliceOfN(rapid.SampledFrom(spicyBytes), 0, 7).Draw(t, "spicy")
}

func genBytesArg(t *rapid.T, r *row, n int) []tengo.Object {
	b := someBytes(t)
	if rapid.Bool().Draw(t, "asString") {
		return objs(string(b))
	}
	return objs(b)
}

func genEncoded(t *rapid.T, r *row, n int) []tengo.Object {
	b := someBytes(t)
	var s string
	switch rapid.IntRange(0, 5).Draw(t, "enc") {
	case 0:
		s = base64.StdEncoding.EncodeToString(b)
	case 1:
		s = base64.RawStdEncoding.EncodeToString(b)
	case 2:
		s = base64.URLEncoding.EncodeToString(b)
	case 3:
		s = base64.RawURLEncoding.EncodeToString(b)
	case 4:
		s = hex.EncodeToString(b)
		if rapid.Bool().Draw(t, "upper") {
			s = strings.ToUpper(s)
		}
	default:
		s = tv.GenString(false).Draw(t, "junk")
	}
	switch rapid.IntRange(0, 7).Draw(t, "mut") {
	case 0:
		if len(s) > 0 {
			i := rapid.IntRange(0, len(s)-1).Draw(t, "drop")
			s = s[:i] + s[i+1:]
		}
	case 1:
		s += pick(t, "tail", "=", "==", "\n", " ", "A", "g", "-", "+")
	case 2:
		i := rapid.IntRange(0, len(s)).Draw(t, "ins")
		s = s[:i] + pick(t, "mid", "\n", "\r\n", "=", "*", "_", "/") + s[i:]
	}
	return objs(s)
}

// ---------- times ----------

func someLoc(t *rapid.T) *time.Location {
	k := rapid.IntRange(0, 5+len(ianaNames)).Draw(t, "zone")
	switch k {
	case 0, 1:
		return time.UTC
	case 2:
		return time.Local
	case 3:
		return fixedP5
	case 4:
		return fixedM330
	}
	return locByName(ianaNames[(k-5)%len(ianaNames)])
}

// DST transitions (New York 2021-03-14, 2021-11-07; Lord Howe 2021-04-03),
// the epoch, the limits of UnixNano.
var interestingSecs = []int64{0, -1, 1, 1615705199, 1615705200, 1636264799, 1636264800, 1617463799, 1617463800,
	951782400, 951868800, 1709164800, -9223372037, 9223372036, 1500000000, -62135596800, 253402300799, 253402300800, 86399, 86400}

func someTime(t *rapid.T) time.Time {
	switch rapid.IntRange(0, 9).Draw(t, "tk") {
	case 0:
		return time.Time{}
	case 1, 2, 3:
		sec := pick(t, "isec", interestingSecs...)
		return time.Unix(sec, pick[int64](t, "ns", 0, 0, 1, 999999999)).In(someLoc(t))
	default:
		sec := rapid.Int64Range(-62135596800-86400*366*1000, 95617584000).Draw(t, "sec") // years -1000..5000
		return time.Unix(sec, pick[int64](t, "ns", 0, 0, 1, 999999999, 500000000, 123456789)).In(someLoc(t))
	}
}

func timeArg(t *rapid.T) tengo.Object { return &tengo.Time{Value: someTime(t)} }

func genTimes(t *rapid.T, r *row, n int) []tengo.Object { return []tengo.Object{timeArg(t)} }

func someDuration(t *rapid.T) int64 {
	switch rapid.IntRange(0, 3).Draw(t, "dk") {
	case 0:
		return pick[int64](t, "unit", 1, 1000, 1e6, 1e9, 60e9, 3600e9) * rapid.Int64Range(-100, 100).Draw(t, "mul")
	case 1:
		return pick[int64](t, "dedge", 0, 1, -1, math.MaxInt64, math.MinInt64, 1500e6, 90*60e9, 1<<53+1, -(1<<53 + 1), 999, 1001, 59999999999)
	default:
		return rapid.Int64().Draw(t, "d")
	}
}

func genDuration(t *rapid.T, r *row, n int) []tengo.Object { return objs(someDuration(t)) }

func genNonPositive(t *rapid.T, r *row, n int) []tengo.Object {
	return objs(pick[int64](t, "np", 0, -1, -1000, math.MinInt64, -5e9))
}

func genMonth(t *rapid.T, r *row, n int) []tengo.Object {
	if rapid.IntRange(0, 5).Draw(t, "edge") == 0 {
		return objs(tv.GenInt64().Draw(t, "m"))
	}
	return objs(rapid.Int64Range(-1, 14).Draw(t, "m"))
}

var durStrPool = []string{"300ms", "-1.5h", "2h45m", "1us", "1µs", "1μs", "", "1", "1d", "9223372036854775807ns", "9223372036854775808ns",
	".5s", "1.s", "+3m", "0", "1h1h", "3000000h", "-0", "+", "1e3s", " 1s", "1s ", "1.5.5s", "0.000000001s", "0.0000000001s", "2562047h47m16.854775807s",
	"2562047h47m16.854775808s", "-2562047h47m16.854775808s", "1ns1us1ms1s1m1h", ".s", "1m-1s"}

func genDurationStr(t *rapid.T, r *row, n int) []tengo.Object {
	if rapid.Bool().Draw(t, "pool") {
		return objs(pick(t, "ds", durStrPool...))
	}
	var sb strings.Builder
	sb.WriteString(pick(t, "sign", "", "", "-", "+"))
	for i, k := 0, rapid.IntRange(1, 3).Draw(t, "parts"); i < k; i++ {
		sb.WriteString(strconv.Itoa(rapid.IntRange(0, 5000).Draw(t, "num")))
		if rapid.IntRange(0, 2).Draw(t, "frac") == 0 {
			sb.WriteString("." + strconv.Itoa(rapid.IntRange(0, 999).Draw(t, "fr")))
		}
		sb.WriteString(pick(t, "u", "ns", "us", "µs", "ms", "s", "m", "h", "d", ""))
	}
	return objs(sb.String())
}

var locNames = []string{"UTC", "", "Local", "America/New_York", "Asia/Kolkata", "Europe/London", "Australia/Lord_Howe",
	"Nowhere/Land", "utc", "../etc/passwd", "America", "EST", "Etc/GMT+5", "a\x00b", "\\x"}

func genDate(t *rapid.T, r *row, n int) []tengo.Object {
	comp := func(label string, lo, hi int64) int64 {
		if rapid.IntRange(0, 11).Draw(t, label+"edge") == 0 {
			return tv.GenInt64().Draw(t, label+"big")
		}
		return rapid.Int64Range(lo, hi).Draw(t, label)
	}
	year := pick[int64](t, "year", -1, 0, 1, 1969, 1970, 2000, 2021, 2024, 9999, 10000)
	if rapid.Bool().Draw(t, "ry") {
		year = comp("y", -3000, 5000)
	}
	out := objs(year, comp("mo", -1, 14), comp("d", -1, 33), comp("h", -1, 25), comp("mi", -1, 61), comp("s", -1, 61),
		pick[int64](t, "ns", 0, 1, 999999999, 1e9, -1, 123456789))
	if n == 8 {
		out = append(out, strObj(pick(t, "loc", locNames...)))
	}
	return out
}

var layouts = []string{time.ANSIC, time.UnixDate, time.RubyDate, time.RFC822, time.RFC822Z, time.RFC850, time.RFC1123, time.RFC1123Z,
	time.RFC3339, time.RFC3339Nano, time.Kitchen, time.Stamp, time.StampMilli, time.StampMicro, time.StampNano,
	"2006-01-02", "Jan", "", "literal", "Z07:00 MST", "02/01/06 03:04:05.000 PM -07:00:00", "Monday January 2 __2 002", "2006-01-02 15:04:05.999999999 -0700 MST"}

func genParseTime(t *rapid.T, r *row, n int) []tengo.Object {
	layout := pick(t, "layout", layouts...)
	tm := someTime(t)
	var v string
	switch rapid.IntRange(0, 5).Draw(t, "vk") {
	case 0:
		v = tm.Format(pick(t, "other", layouts...))
	case 1:
		v = tm.Format(layout)
		if len(v) > 0 {
			i := rapid.IntRange(0, len(v)-1).Draw(t, "cut")
			v = v[:i] + pick(t, "ins", "", "x", "9", " ") + v[i+1:]
		}
	default:
		v = tm.Format(layout)
	}
	return objs(layout, v)
}

func genUnix(t *rapid.T, r *row, n int) []tengo.Object {
	sec := rapid.Int64Range(-95617584000, 95617584000).Draw(t, "sec")
	if rapid.IntRange(0, 3).Draw(t, "edge") == 0 {
		sec = pick(t, "isec", append(interestingSecs, math.MaxInt64, math.MinInt64)...)
	}
	return objs(sec, pick[int64](t, "nsec", 0, 1, 999999999, 1e9, -1, 1e18, -1e18, 500000000, math.MaxInt64, math.MinInt64))
}

func genTimeDur(t *rapid.T, r *row, n int) []tengo.Object {
	return []tengo.Object{timeArg(t), intObj(someDuration(t))}
}

func genAddDate(t *rapid.T, r *row, n int) []tengo.Object {
	c := func(label string) int64 {
		if rapid.IntRange(0, 15).Draw(t, label+"edge") == 0 {
			return tv.GenInt64().Draw(t, label+"big")
		}
		return rapid.Int64Range(-14, 14).Draw(t, label)
	}
	return []tengo.Object{timeArg(t), intObj(c("y")), intObj(c("m")), intObj(c("d"))}
}

func genTimePair(t *rapid.T, r *row, n int) []tengo.Object {
	a := someTime(t)
	var b time.Time
	switch rapid.IntRange(0, 5).Draw(t, "rel") {
	case 0:
		b = a.In(someLoc(t))
	case 1:
		b = a.Add(pick[time.Duration](t, "delta", 1, -1, time.Second, -time.Second, time.Hour, -24*time.Hour)).In(someLoc(t))
	default:
		b = someTime(t)
	}
	return []tengo.Object{&tengo.Time{Value: a}, &tengo.Time{Value: b}}
}

func genTimeFormat(t *rapid.T, r *row, n int) []tengo.Object {
	return []tengo.Object{timeArg(t), strObj(pick(t, "layout", layouts...))}
}

func genInLocation(t *rapid.T, r *row, n int) []tengo.Object {
	return []tengo.Object{timeArg(t), strObj(pick(t, "loc", locNames...))}
}

// ---------- default generator by parameter kind ----------

func defaultArg(t *rapid.T, kind byte, label string) tengo.Object {
	switch kind {
	case 'S', 's':
		return strObj(tinyStr(t, label, 0, 6))
	case 'I', 'L', 'i':
		return intObj(tv.GenInt64().Draw(t, label))
	case 'F', 'f':
		return fltObj(floatArg(t, label))
	case 'Y':
		return &tengo.Bytes{Value: someBytes(t)}
	case 'T':
		return timeArg(t)
	case 'b':
		return boolObj(rapid.Bool().Draw(t, label))
	case 'A':
		return &tengo.Array{Value: []tengo.Object{strObj("a"), strObj("b")}}
	}
	panic("no default generator for kind " + string(kind))
}

// typedTuple draws a right-typed tuple of n arguments for the row.
func typedTuple(t *rapid.T, r *row, n int) []tengo.Object {
	if r.gen != nil && !r.clock {
		return r.gen(t, r, n)
	}
	out := make([]tengo.Object, n)
	for i := 0; i < n; i++ {
		out[i] = defaultArg(t, r.kinds[i], "arg"+strconv.Itoa(i))
	}
	return out
}

func drawArity(t *rapid.T, r *row) int {
	if r.min == len(r.kinds) {
		return r.min
	}
	return rapid.IntRange(r.min, len(r.kinds)).Draw(t, "nargs")
}

// ---------- mutators ----------

// recoerce re-represents argument o of the given kind as another value that
// the documented coercion maps to the same Go value (so the tuple keeps its
// distinguishing power while the adapter's coercion is exercised). Returns o
// itself when there is no such representation.
func recoerce(t *rapid.T, kind byte, o tengo.Object) tengo.Object {
	switch kind {
	case 'S':
		s, ok := o.(*tengo.String)
		if !ok {
			return o
		}
		var cands []tengo.Object
		cands = append(cands, &tengo.Bytes{Value: []byte(s.Value)})
		if n, err := strconv.ParseInt(s.Value, 10, 64); err == nil && strconv.FormatInt(n, 10) == s.Value {
			cands = append(cands, intObj(n))
		}
		if r, size := utf8.DecodeRuneInString(s.Value); size == len(s.Value) && size > 0 && r != utf8.RuneError {
			cands = append(cands, &tengo.Char{Value: r})
		}
		if s.Value == "true" || s.Value == "false" {
			cands = append(cands, boolObj(s.Value == "true"))
		}
		return cands[rapid.IntRange(0, len(cands)-1).Draw(t, "reS")]
	case 'I', 'L':
		iv, ok := o.(*tengo.Int)
		if !ok {
			return o
		}
		n := iv.Value
		cands := []tengo.Object{strObj(strconv.FormatInt(n, 10))}
		if n > -(1<<53) && n < 1<<53 {
			cands = append(cands, fltObj(float64(n)))
			// int64(f) truncates toward zero
			if n >= 0 && n < 1<<40 {
				cands = append(cands, fltObj(float64(n)+0.75))
			} else if n < 0 && n > -(1<<40) {
				cands = append(cands, fltObj(float64(n)-0.75))
			}
		}
		if n == 0 || n == 1 {
			cands = append(cands, boolObj(n == 1))
		}
		if n >= math.MinInt32 && n <= math.MaxInt32 {
			cands = append(cands, &tengo.Char{Value: rune(n)})
		}
		if n >= 0 {
			cands = append(cands, strObj("+"+strconv.FormatInt(n, 10)), strObj("00"+strconv.FormatInt(n, 10)))
		}
		return cands[rapid.IntRange(0, len(cands)-1).Draw(t, "reI")]
	case 'F':
		fv, ok := o.(*tengo.Float)
		if !ok {
			return o
		}
		f := fv.Value
		cands := []tengo.Object{strObj(strconv.FormatFloat(f, 'g', -1, 64)), strObj(strconv.FormatFloat(f, 'e', -1, 64))}
		if f == math.Trunc(f) && math.Abs(f) < 1<<53 && !(f == 0 && math.Signbit(f)) {
			cands = append(cands, intObj(int64(f)))
		}
		if !math.IsNaN(f) && !math.IsInf(f, 0) {
			cands = append(cands, strObj(strconv.FormatFloat(f, 'x', -1, 64)))
		}
		return cands[rapid.IntRange(0, len(cands)-1).Draw(t, "reF")]
	case 'Y':
		if b, ok := o.(*tengo.Bytes); ok {
			return strObj(string(b.Value))
		}
		if s, ok := o.(*tengo.String); ok {
			return &tengo.Bytes{Value: []byte(s.Value)}
		}
	case 'T':
		if tm, ok := o.(*tengo.Time); ok {
			if tm.Value.Nanosecond() == 0 && tm.Value.Location() == time.Local {
				return intObj(tm.Value.Unix())
			}
		}
	}
	return o
}

// freeCoercible is an arbitrary value that the documented rules convert to
// the given kind (nil when the kind has none besides its own type).
func freeCoercible(t *rapid.T, kind byte) tengo.Object {
	switch kind {
	case 'S':
		return pick[tengo.Object](t, "fcS", intObj(-12), intObj(math.MinInt64), fltObj(1.5), fltObj(1e21), fltObj(-0.0000001), fltObj(math.Inf(1)),
			fltObj(math.NaN()), tengo.TrueValue, tengo.FalseValue, &tengo.Char{Value: 'b'}, &tengo.Char{Value: 'é'}, &tengo.Char{Value: 0x10FFFF},
			&tengo.Bytes{Value: []byte("a\xffb")}, &tengo.Bytes{Value: []byte{}},
			&tengo.Array{Value: []tengo.Object{strObj("a"), intObj(1)}}, &tengo.ImmutableArray{Value: []tengo.Object{}},
			&tengo.Map{Value: map[string]tengo.Object{"a": strObj("b")}}, &tengo.ImmutableMap{Value: map[string]tengo.Object{}},
			&tengo.Error{Value: strObj("a.b")}, &tengo.Time{Value: time.Unix(1500000000, 5).In(fixedP5)}, &tengo.Time{},
			builtinByName("len"), theUserFn)
	case 'T':
		return intObj(pick(t, "fcT", append(interestingSecs, math.MaxInt64, math.MinInt64)...))
	}
	return nil
}

var wrongPoolCommon = []tengo.Object{
	tengo.UndefinedValue,
	&tengo.Array{Value: []tengo.Object{intObj(1)}},
	&tengo.ImmutableArray{Value: []tengo.Object{}},
	&tengo.Map{Value: map[string]tengo.Object{"a": intObj(1)}},
	&tengo.ImmutableMap{Value: map[string]tengo.Object{}},
	&tengo.Error{Value: strObj("e")},
	builtinByName("len"),
	theUserFn,
}

// wrongTyped is a value that the documented rules do NOT convert to the kind.
func wrongTyped(t *rapid.T, kind byte) tengo.Object {
	pool := append([]tengo.Object(nil), wrongPoolCommon...)
	tm := &tengo.Time{Value: time.Unix(1500000000, 0).UTC()}
	by := &tengo.Bytes{Value: []byte("12")}
	switch kind {
	case 'S':
		return tengo.UndefinedValue // everything else has a string form
	case 'I', 'L':
		pool = append(pool, tm, by, strObj("x"), strObj(""), strObj("1.5"), strObj(" 1"), strObj("1e3"), strObj("0x10"), strObj("9223372036854775808"))
	case 'F':
		pool = append(pool, tm, by, tengo.TrueValue, tengo.FalseValue, &tengo.Char{Value: '1'}, strObj("abc"), strObj(""), strObj("1,5"))
	case 'Y':
		pool = append(pool, tm, intObj(1), fltObj(1), tengo.TrueValue, &tengo.Char{Value: 'a'})
	case 'T':
		pool = append(pool, by, fltObj(1), strObj("2020-01-01"), strObj("1"), tengo.TrueValue, &tengo.Char{Value: 'a'})
	case 'A':
		pool = []tengo.Object{tengo.UndefinedValue, strObj("ab"), intObj(1), by, &tengo.Map{Value: map[string]tengo.Object{}},
			&tengo.Array{Value: []tengo.Object{strObj("a"), tengo.UndefinedValue}},
			&tengo.ImmutableArray{Value: []tengo.Object{tengo.UndefinedValue}}}
	case 'b':
		pool = append(pool, tm, by, intObj(1), intObj(0), fltObj(1), strObj("true"), &tengo.Char{Value: 1})
	case 's':
		pool = append(pool, tm, by, intObj(1), fltObj(1.5), tengo.TrueValue, &tengo.Char{Value: '1'})
	case 'f':
		pool = append(pool, tm, by, intObj(1), strObj("1.5"), tengo.TrueValue, &tengo.Char{Value: '1'})
	case 'i':
		pool = append(pool, tm, by, fltObj(1), strObj("1"), tengo.TrueValue, &tengo.Char{Value: '1'})
	}
	return pool[rapid.IntRange(0, len(pool)-1).Draw(t, "wrong")]
}

var boundaryInts = []int64{-1, 0, 1, -2, 2, 36, 37, 64, 65, math.MaxInt64, math.MinInt64, math.MaxInt32, math.MinInt32, math.MaxInt32 + 1, -1000000, 1 << 40}

// boundaryMutate replaces one argument by a boundary value of its kind (the
// result may lie outside the Go function's domain: expect() decides).
func boundaryMutate(t *rapid.T, r *row, args []tengo.Object) []tengo.Object {
	if len(args) == 0 {
		return args
	}
	first := 0
	if r.pattern {
		first = 1
	}
	if first >= len(args) {
		return args
	}
	i := rapid.IntRange(first, len(args)-1).Draw(t, "bpos")
	out := append([]tengo.Object(nil), args...)
	switch r.kinds[i] {
	case 'I', 'L', 'i':
		out[i] = intObj(pick(t, "bint", boundaryInts...))
	case 'S', 's':
		out[i] = strObj(pick(t, "bstr", "", "\x00", "\xff", strings.Repeat("ab", 40), "é", " "))
	case 'F', 'f':
		out[i] = fltObj(pick(t, "bflt", math.NaN(), math.Inf(1), math.Inf(-1), math.Copysign(0, -1), math.MaxFloat64, math.SmallestNonzeroFloat64, -math.MaxFloat64))
	case 'Y':
		out[i] = &tengo.Bytes{Value: []byte{}}
	case 'T':
		out[i] = &tengo.Time{Value: pick(t, "btime", time.Time{}, time.Unix(math.MaxInt64, 0), time.Unix(math.MinInt64, 0), time.Unix(1<<40, 0).UTC())}
	}
	return out
}
