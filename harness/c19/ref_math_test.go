package c19

// Reference rows for "math", "base64" and "hex", written from
// docs/stdlib-math.md (each description is the Go documentation of the math
// function of that name), docs/stdlib-base64.md and docs/stdlib-hex.md.
// Result types are those of the Go functions (the "=> float" in the docs of
// ilogb/is_inf/is_nan/signbit is a slip: the descriptions say "as an
// integer", "reports whether", "returns true if").

import (
	"encoding/base64"
	"encoding/hex"
	"math"
)

func init() {
	M := "math"
	// constants: "Mathematical constants", "Floating-point limit values",
	// "Integer limit values" - Go's math constants of the same names
	// (docs typos: sprtPi = sqrtPi, ln10E = log10E).
	addConst(M, "e", float64(2.71828182845904523536028747135266249775724709369995957496696763))
	addConst(M, "pi", float64(3.14159265358979323846264338327950288419716939937510582097494459))
	addConst(M, "phi", float64(1.61803398874989484820458683436563811772030917980576286213544862))
	addConst(M, "sqrt2", float64(1.41421356237309504880168872420969807856967187537694807317667974))
	addConst(M, "sqrtE", float64(1.64872127070012814684865078781416357165377610071014801157507931))
	addConst(M, "sqrtPi", float64(1.77245385090551602729816748334114518279754945612238712821380779))
	addConst(M, "sqrtPhi", float64(1.27201964951406896425242246173749149171560804184009624861664038))
	addConst(M, "ln2", float64(0.693147180559945309417232121458176568075500134360255254120680009))
	addConst(M, "log2E", float64(1/0.693147180559945309417232121458176568075500134360255254120680009))
	addConst(M, "ln10", float64(2.30258509299404568401799145468436420760110148862877297603332790))
	addConst(M, "log10E", float64(1/2.30258509299404568401799145468436420760110148862877297603332790))
	addConst(M, "maxFloat32", float64(0x1p127*(1+(1-0x1p-23))))
	addConst(M, "smallestNonzeroFloat32", float64(0x1p-126*0x1p-23))
	addConst(M, "maxFloat64", float64(0x1p1023*(1+(1-0x1p-52))))
	addConst(M, "smallestNonzeroFloat64", float64(0x1p-1022*0x1p-52))
	addConst(M, "maxInt", int64(9223372036854775807)) // int is 64-bit here
	addConst(M, "minInt", int64(-9223372036854775808))
	addConst(M, "maxInt8", int64(127))
	addConst(M, "minInt8", int64(-128))
	addConst(M, "maxInt16", int64(32767))
	addConst(M, "minInt16", int64(-32768))
	addConst(M, "maxInt32", int64(2147483647))
	addConst(M, "minInt32", int64(-2147483648))
	addConst(M, "maxInt64", int64(9223372036854775807))
	addConst(M, "minInt64", int64(-9223372036854775808))

	f1 := func(name string, f func(float64) float64) {
		add(M, name, "F>F", "math."+name, func(a A) (interface{}, error) { return f(a.F(0)), nil }, genFloats)
	}
	f2 := func(name string, f func(float64, float64) float64) {
		add(M, name, "FF>F", "math."+name, func(a A) (interface{}, error) { return f(a.F(0), a.F(1)), nil }, genFloats)
	}
	f1("abs", math.Abs)
	f1("acos", math.Acos)
	f1("acosh", math.Acosh)
	f1("asin", math.Asin)
	f1("asinh", math.Asinh)
	f1("atan", math.Atan)
	f2("atan2", math.Atan2) // atan2(y, x)
	f1("atanh", math.Atanh)
	f1("cbrt", math.Cbrt)
	f1("ceil", math.Ceil)
	f2("copysign", math.Copysign) // magnitude of x, sign of y
	f1("cos", math.Cos)
	f1("cosh", math.Cosh)
	f2("dim", math.Dim)
	f1("erf", math.Erf)
	f1("erfc", math.Erfc)
	f1("exp", math.Exp)
	f1("exp2", math.Exp2)
	f1("expm1", math.Expm1)
	f1("floor", math.Floor)
	f1("gamma", math.Gamma)
	f2("hypot", math.Hypot)
	add(M, "ilogb", "F>I", "math.Ilogb", func(a A) (interface{}, error) { return math.Ilogb(a.F(0)), nil }, genFloats)
	add(M, "inf", "I>F", "math.Inf", func(a A) (interface{}, error) { return math.Inf(a.I(0)), nil }, genSmallInts)
	add(M, "is_inf", "FI>B", "math.IsInf", func(a A) (interface{}, error) { return math.IsInf(a.F(0), a.I(1)), nil }, genIsInf)
	add(M, "is_nan", "F>B", "math.IsNaN", func(a A) (interface{}, error) { return math.IsNaN(a.F(0)), nil }, genFloats)
	f1("j0", math.J0)
	f1("j1", math.J1)
	// jn/yn: the Bessel recurrences run |n| steps, so the order is bounded
	// (work bound; larger orders are never executed).
	besselDom := func(a A) int {
		if n := a.I(0); n > 400 || n < -400 {
			return domUnsafe
		}
		return domOK
	}
	add(M, "jn", "IF>F", "math.Jn", func(a A) (interface{}, error) { return math.Jn(a.I(0), a.F(1)), nil }, genBessel, withDom(besselDom))
	add(M, "ldexp", "FI>F", "math.Ldexp", func(a A) (interface{}, error) { return math.Ldexp(a.F(0), a.I(1)), nil }, genLdexp)
	f1("log", math.Log)
	f1("log10", math.Log10)
	f1("log1p", math.Log1p)
	f1("log2", math.Log2)
	f1("logb", math.Logb)
	f2("max", math.Max)
	f2("min", math.Min)
	f2("mod", math.Mod)
	add(M, "nan", ">F", "math.NaN", func(a A) (interface{}, error) { return math.NaN(), nil }, nil)
	f2("nextafter", math.Nextafter)
	f2("pow", math.Pow)
	add(M, "pow10", "I>F", "math.Pow10", func(a A) (interface{}, error) { return math.Pow10(a.I(0)), nil }, genSmallInts)
	f2("remainder", math.Remainder)
	add(M, "signbit", "F>B", "math.Signbit", func(a A) (interface{}, error) { return math.Signbit(a.F(0)), nil }, genFloats)
	f1("sin", math.Sin)
	f1("sinh", math.Sinh)
	f1("sqrt", math.Sqrt)
	f1("tan", math.Tan)
	f1("tanh", math.Tanh)
	f1("trunc", math.Trunc)
	f1("y0", math.Y0)
	f1("y1", math.Y1)
	add(M, "yn", "IF>F", "math.Yn", func(a A) (interface{}, error) { return math.Yn(a.I(0), a.F(1)), nil }, genBessel, withDom(besselDom))

	// base64: "returns the base64 encoding of src" / "... but omits the
	// padding" / "url-base64" - the four standard encodings of encoding/base64.
	enc := func(mod, name, doc string, f func([]byte) string) {
		add(mod, name, "Y>S", doc, func(a A) (interface{}, error) { return f(a.Y(0)), nil }, genBytesArg)
	}
	dec := func(mod, name, doc string, f func(string) ([]byte, error)) {
		add(mod, name, "S>Y", doc, func(a A) (interface{}, error) {
			b, err := f(a.S(0))
			if err != nil {
				return nil, err
			}
			return b, nil
		}, genEncoded)
	}
	B := "base64"
	enc(B, "encode", "base64.StdEncoding.EncodeToString", base64.StdEncoding.EncodeToString)
	dec(B, "decode", "base64.StdEncoding.DecodeString", base64.StdEncoding.DecodeString)
	enc(B, "raw_encode", "base64.RawStdEncoding.EncodeToString", base64.RawStdEncoding.EncodeToString)
	dec(B, "raw_decode", "base64.RawStdEncoding.DecodeString", base64.RawStdEncoding.DecodeString)
	enc(B, "url_encode", "base64.URLEncoding.EncodeToString", base64.URLEncoding.EncodeToString)
	dec(B, "url_decode", "base64.URLEncoding.DecodeString", base64.URLEncoding.DecodeString)
	enc(B, "raw_url_encode", "base64.RawURLEncoding.EncodeToString", base64.RawURLEncoding.EncodeToString)
	dec(B, "raw_url_decode", "base64.RawURLEncoding.DecodeString", base64.RawURLEncoding.DecodeString)
	enc("hex", "encode", "hex.EncodeToString", hex.EncodeToString)
	dec("hex", "decode", "hex.DecodeString", hex.DecodeString)
}
