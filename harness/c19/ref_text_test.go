package c19

// Reference rows for the "text" module and the Regexp object, written from
// docs/stdlib-text.md: each entry's description is the Go documentation of a
// strings/strconv/regexp function; the row calls that function.

import (
	"regexp"
	"strconv"
	"strings"

	"github.com/d5/tengo/v2"
)

// matchesToObj renders FindAllStringSubmatchIndex output the way the docs
// describe it: "an array holding all matches, each of which is an array of
// map object that contains matching text, begin and end (exclusive) index".
// Groups that did not participate in a match (index -1) have no text/begin/
// end; the docs are silent, text.re_find leaves them out and so does this.
func matchesToObj(text string, ms [][]int) interface{} {
	if ms == nil {
		return nil // undefined
	}
	out := &tengo.Array{}
	for _, m := range ms {
		sub := &tengo.Array{}
		for i := 0; i+1 < len(m); i += 2 {
			if m[i] < 0 || m[i+1] < 0 {
				continue
			}
			sub.Value = append(sub.Value, &tengo.Map{Value: map[string]tengo.Object{
				"text":  strObj(text[m[i]:m[i+1]]),
				"begin": intObj(int64(m[i])),
				"end":   intObj(int64(m[i+1])),
			}})
		}
		out.Value = append(out.Value, sub)
	}
	return out
}

func refFind(re *regexp.Regexp, a A, textIdx int) interface{} {
	text := a.S(textIdx)
	if len(a) == textIdx+1 {
		// count omitted: the docs list count as a parameter; the
		// implementation accepts its absence and returns the first match only
		m := re.FindStringSubmatchIndex(text)
		if m == nil {
			return nil
		}
		return matchesToObj(text, [][]int{m})
	}
	return matchesToObj(text, re.FindAllStringSubmatchIndex(text, a.I(textIdx+1)))
}

func refSplit(re *regexp.Regexp, a A, textIdx int) interface{} {
	n := -1 // count omitted: all substrings (implementation; docs list count)
	if len(a) > textIdx+1 {
		n = a.I(textIdx + 1)
	}
	return re.Split(a.S(textIdx), n)
}

// padding: "returns a copy of the string s padded on the left/right with the
// contents of the string pad_with to length pad_len. If pad_with is not
// specified, white space is used". No Go function is named. What follows from
// the sentence: s unchanged when it already has pad_len bytes or nothing can
// be padded with; otherwise exactly pad_len bytes ending (starting) with s.
// Which part of a repeated multi-byte pad_with is cut when the gap is not a
// multiple of its length is not documented: as implemented, the cut is at the
// far end (left pad keeps the tail of the repetition, right pad the head).
func refPad(a A, left bool) string {
	s, n := a.S(0), a.I(1)
	pad := " "
	if len(a) == 3 {
		pad = a.S(2)
	}
	if len(s) >= n || pad == "" {
		return s
	}
	gap := n - len(s)
	rep := strings.Repeat(pad, (gap+len(pad)-1)/len(pad))
	if left {
		return rep[len(rep)-gap:] + s
	}
	return s + rep[:gap]
}

func padDom(a A) int {
	if a.I(1) > 1<<16 {
		return domUnsafe
	}
	return domOK
}

// pad_*: the limit is applied to pad_len itself, before looking at s or
// pad_with (so pad_len beyond the limit is an error even when nothing would be
// padded). Within the documented behaviour the result has pad_len bytes, so
// this only differs in the corner "nothing to pad"; follow the implementation.
func padLimSize(a A, res interface{}) int {
	n := len(res.(string))
	if a.I(1) > n {
		n = a.I(1)
	}
	return n
}

// pad_*: the third argument is only looked at when padding is needed.
func padLazy(i int, args []tengo.Object) bool {
	if i != 2 {
		return false
	}
	s, ok1 := coerceString(args[0])
	n, ok2 := coerceInt64(args[1])
	return ok1 && ok2 && int64(len(s)) >= n
}

// format_float: strconv.FormatFloat panics on a bit size other than 32/64 and
// there is no format byte in an empty string; a huge precision is a huge
// allocation (never executed).
func formatFloatDom(a A) int {
	if p := a.I(2); p > 2000 {
		return domUnsafe
	}
	if b := a.I(3); b != 32 && b != 64 {
		return domOut
	}
	if a.S(1) == "" {
		return domOut
	}
	return domOK
}

func mustRe(p string) *regexp.Regexp { return regexp.MustCompile(p) }

func init() {
	T := "text"
	// --- regular expressions ---
	add(T, "re_match", "SS>B", "regexp.MatchString", func(a A) (interface{}, error) {
		return regexp.MatchString(a.S(0), a.S(1))
	}, genRegexpCall)
	add(T, "re_find", "SS|I>M", "Regexp.FindAllStringSubmatchIndex", func(a A) (interface{}, error) {
		re, err := regexp.Compile(a.S(0))
		if err != nil {
			return nil, err
		}
		return refFind(re, a, 1), nil
	}, genRegexpCall, withLazy(func(i int, args []tengo.Object) bool {
		// the pattern is compiled (and its error returned as a value) before
		// the later arguments are looked at
		if i == 0 {
			return false
		}
		p, ok := coerceString(args[0])
		if !ok {
			return false
		}
		_, err := regexp.Compile(p)
		return err != nil
	}))
	add(T, "re_replace", "SSS>S", "Regexp.ReplaceAllString", func(a A) (interface{}, error) {
		re, err := regexp.Compile(a.S(0))
		if err != nil {
			return nil, err
		}
		return re.ReplaceAllString(a.S(1), a.S(2)), nil
	}, genRegexpCall, limited())
	add(T, "re_split", "SS|I>Ss", "Regexp.Split", func(a A) (interface{}, error) {
		re, err := regexp.Compile(a.S(0))
		if err != nil {
			return nil, err
		}
		return refSplit(re, a, 1), nil
	}, genRegexpCall)
	add(T, "re_compile", "S>R", "regexp.Compile", func(a A) (interface{}, error) {
		if _, err := regexp.Compile(a.S(0)); err != nil {
			return nil, err
		}
		return regexpObjectMarker, nil
	}, genRegexpCall)

	// --- Regexp object: a[0] is the (valid) pattern the object was compiled from ---
	R := "text.regexp"
	add(R, "match", "SS>B", "Regexp.MatchString", func(a A) (interface{}, error) {
		return mustRe(a.S(0)).MatchString(a.S(1)), nil
	}, genRegexpCall, onPattern())
	add(R, "find", "SS|I>M", "Regexp.FindAllStringSubmatchIndex", func(a A) (interface{}, error) {
		return refFind(mustRe(a.S(0)), a, 1), nil
	}, genRegexpCall, onPattern())
	add(R, "replace", "SSS>S", "Regexp.ReplaceAllString", func(a A) (interface{}, error) {
		return mustRe(a.S(0)).ReplaceAllString(a.S(1), a.S(2)), nil
	}, genRegexpCall, onPattern(), limited())
	add(R, "split", "SS|I>Ss", "Regexp.Split", func(a A) (interface{}, error) {
		return refSplit(mustRe(a.S(0)), a, 1), nil
	}, genRegexpCall, onPattern())

	// --- strings ---
	ss := func(name, ret, doc string, f func(s, t string) interface{}, opts ...opt) {
		add(T, name, "SS>"+ret, doc, func(a A) (interface{}, error) { return f(a.S(0), a.S(1)), nil }, genStrPair, opts...)
	}
	ss("compare", "I", "strings.Compare", func(s, t string) interface{} { return strings.Compare(s, t) })
	ss("contains", "B", "strings.Contains", func(s, t string) interface{} { return strings.Contains(s, t) })
	ss("contains_any", "B", "strings.ContainsAny", func(s, t string) interface{} { return strings.ContainsAny(s, t) })
	ss("count", "I", "strings.Count", func(s, t string) interface{} { return strings.Count(s, t) })
	ss("equal_fold", "B", "strings.EqualFold", func(s, t string) interface{} { return strings.EqualFold(s, t) })
	ss("has_prefix", "B", "strings.HasPrefix", func(s, t string) interface{} { return strings.HasPrefix(s, t) })
	ss("has_suffix", "B", "strings.HasSuffix", func(s, t string) interface{} { return strings.HasSuffix(s, t) })
	ss("index", "I", "strings.Index", func(s, t string) interface{} { return strings.Index(s, t) })
	ss("index_any", "I", "strings.IndexAny", func(s, t string) interface{} { return strings.IndexAny(s, t) })
	ss("last_index", "I", "strings.LastIndex", func(s, t string) interface{} { return strings.LastIndex(s, t) })
	ss("last_index_any", "I", "strings.LastIndexAny", func(s, t string) interface{} { return strings.LastIndexAny(s, t) })
	ss("split", "Ss", "strings.Split", func(s, t string) interface{} { return strings.Split(s, t) }, limited())
	ss("split_after", "Ss", "strings.SplitAfter", func(s, t string) interface{} { return strings.SplitAfter(s, t) }, limited())
	ss("trim", "S", "strings.Trim", func(s, t string) interface{} { return strings.Trim(s, t) }, limited())
	ss("trim_left", "S", "strings.TrimLeft", func(s, t string) interface{} { return strings.TrimLeft(s, t) }, limited())
	ss("trim_right", "S", "strings.TrimRight", func(s, t string) interface{} { return strings.TrimRight(s, t) }, limited())
	ss("trim_prefix", "S", "strings.TrimPrefix", func(s, t string) interface{} { return strings.TrimPrefix(s, t) }, limited())
	ss("trim_suffix", "S", "strings.TrimSuffix", func(s, t string) interface{} { return strings.TrimSuffix(s, t) }, limited())

	add(T, "split_n", "SSI>Ss", "strings.SplitN", func(a A) (interface{}, error) {
		return strings.SplitN(a.S(0), a.S(1), a.I(2)), nil
	}, genStrPairN, limited())
	add(T, "split_after_n", "SSI>Ss", "strings.SplitAfterN", func(a A) (interface{}, error) {
		return strings.SplitAfterN(a.S(0), a.S(1), a.I(2)), nil
	}, genStrPairN, limited())

	s1 := func(name, doc string, f func(s string) string) {
		add(T, name, "S>S", doc, func(a A) (interface{}, error) { return f(a.S(0)), nil }, genCaseStr, limited())
	}
	s1("title", "strings.Title", strings.Title)
	s1("to_lower", "strings.ToLower", strings.ToLower)
	s1("to_title", "strings.ToTitle", strings.ToTitle)
	s1("to_upper", "strings.ToUpper", strings.ToUpper)
	s1("trim_space", "strings.TrimSpace", strings.TrimSpace)
	s1("quote", "strconv.Quote", strconv.Quote)
	add(T, "fields", "S>Ss", "strings.Fields", func(a A) (interface{}, error) {
		return strings.Fields(a.S(0)), nil
	}, genCaseStr, limited())
	add(T, "unquote", "S>S", "strconv.Unquote", func(a A) (interface{}, error) {
		s, err := strconv.Unquote(a.S(0))
		if err != nil {
			return nil, err
		}
		return s, nil
	}, genQuoted, limited())

	add(T, "join", "AS>S", "strings.Join", func(a A) (interface{}, error) {
		return strings.Join(a.Ss(0), a.S(1)), nil
	}, genJoin, limited())
	add(T, "repeat", "SI>S", "strings.Repeat", func(a A) (interface{}, error) {
		return strings.Repeat(a.S(0), a.I(1)), nil
	}, genRepeat, limited(), withDom(func(a A) int {
		n := a.I(1)
		if n < 0 {
			return domOut // strings.Repeat panics on a negative count
		}
		if len(a.S(0)) > 0 && n > (1<<20)/len(a.S(0)) {
			// up to the default limit this is a real multi-GB allocation;
			// beyond int overflow strings.Repeat panics. Never executed.
			return domUnsafe
		}
		if n > 1<<20 {
			return domUnsafe
		}
		return domOK
	}))
	add(T, "replace", "SSSI>S", "strings.Replace", func(a A) (interface{}, error) {
		return strings.Replace(a.S(0), a.S(1), a.S(2), a.I(3)), nil
	}, genReplace, limited())
	// substr(s, lower, upper): "returns a substring of the string s specified
	// by the lower and upper parameters" - nothing more is documented. As
	// implemented: upper defaults to len(s); lower > upper is the run-time
	// error "invalid index type"; both bounds are then clamped to [0, len(s)];
	// byte offsets.
	add(T, "substr", "SI|I>S", "s[lower:upper] (clamped; implementation-defined corners)", func(a A) (interface{}, error) {
		s, lo := a.S(0), a.I(1)
		hi := len(s)
		if len(a) == 3 {
			hi = a.I(2)
		}
		if lo > hi {
			return rtErr{"invalid index type"}, nil
		}
		clamp := func(i int) int {
			if i < 0 {
				return 0
			}
			if i > len(s) {
				return len(s)
			}
			return i
		}
		return s[clamp(lo):clamp(hi)], nil
	}, genSubstr)
	add(T, "pad_left", "SI|S>S", "pad to pad_len on the left", func(a A) (interface{}, error) {
		return refPad(a, true), nil
	}, genPad, withLimSize(padLimSize), withLazy(padLazy), withDom(padDom))
	add(T, "pad_right", "SI|S>S", "pad to pad_len on the right", func(a A) (interface{}, error) {
		return refPad(a, false), nil
	}, genPad, withLimSize(padLimSize), withLazy(padLazy), withDom(padDom))

	// --- strconv ---
	add(T, "atoi", "S>I", "strconv.Atoi", func(a A) (interface{}, error) {
		n, err := strconv.Atoi(a.S(0))
		if err != nil {
			return nil, err
		}
		return n, nil
	}, genNumStr)
	add(T, "format_bool", "b>S", "strconv.FormatBool", func(a A) (interface{}, error) {
		return strconv.FormatBool(a.B(0)), nil
	}, nil)
	// format_float(f, fmt, prec, bits): fmt is a string in tengo and a byte in
	// Go; the first byte is used (implementation; docs: "according to the
	// format fmt").
	add(T, "format_float", "fSII>S", "strconv.FormatFloat", func(a A) (interface{}, error) {
		return strconv.FormatFloat(a.F(0), a.S(1)[0], a.I(2), a.I(3)), nil
	}, genFormatFloat, withDom(formatFloatDom))
	add(T, "format_int", "iI>S", "strconv.FormatInt", func(a A) (interface{}, error) {
		return strconv.FormatInt(a.L(0), a.I(1)), nil
	}, genFormatInt, withDom(func(a A) int {
		if b := a.I(1); b < 2 || b > 36 {
			return domOut // documented: "for 2 <= base <= 36"; FormatInt panics outside
		}
		return domOK
	}))
	add(T, "itoa", "I>S", "strconv.Itoa", func(a A) (interface{}, error) {
		return strconv.Itoa(a.I(0)), nil
	}, nil, limited())
	add(T, "parse_bool", "s>B", "strconv.ParseBool", func(a A) (interface{}, error) {
		b, err := strconv.ParseBool(a.S(0))
		if err != nil {
			return nil, err
		}
		return b, nil
	}, genNumStr)
	add(T, "parse_float", "sI>F", "strconv.ParseFloat", func(a A) (interface{}, error) {
		f, err := strconv.ParseFloat(a.S(0), a.I(1))
		if err != nil {
			return nil, err
		}
		return f, nil
	}, genParseFloat)
	add(T, "parse_int", "sII>I", "strconv.ParseInt", func(a A) (interface{}, error) {
		n, err := strconv.ParseInt(a.S(0), a.I(1), a.I(2))
		if err != nil {
			return nil, err
		}
		return n, nil
	}, genParseInt)
}

// regexpObjectMarker stands for "a Regexp object" in re_compile's reference
// result; the comparison checks that the returned object has exactly the
// documented methods (match, find, replace, split).
var regexpObjectMarker = &tengo.String{Value: "<Regexp object with methods find, match, replace, split>"}
