package c19

// Reference rows for the "times" module, written from docs/stdlib-times.md:
// every description is the Go documentation of a function or method of
// package time. Durations are ints (nanoseconds), months are ints.

import (
	"time"
)

func init() {
	X := "times"
	// constants: the layouts are spelled out in the docs
	addConst(X, "format_ansic", "Mon Jan _2 15:04:05 2006")
	addConst(X, "format_unix_date", "Mon Jan _2 15:04:05 MST 2006")
	addConst(X, "format_ruby_date", "Mon Jan 02 15:04:05 -0700 2006")
	addConst(X, "format_rfc822", "02 Jan 06 15:04 MST")
	addConst(X, "format_rfc822z", "02 Jan 06 15:04 -0700")
	addConst(X, "format_rfc850", "Monday, 02-Jan-06 15:04:05 MST")
	addConst(X, "format_rfc1123", "Mon, 02 Jan 2006 15:04:05 MST")
	addConst(X, "format_rfc1123z", "Mon, 02 Jan 2006 15:04:05 -0700")
	addConst(X, "format_rfc3339", "2006-01-02T15:04:05Z07:00")
	addConst(X, "format_rfc3339_nano", "2006-01-02T15:04:05.999999999Z07:00")
	addConst(X, "format_kitchen", "3:04PM")
	addConst(X, "format_stamp", "Jan _2 15:04:05")
	addConst(X, "format_stamp_milli", "Jan _2 15:04:05.000")
	addConst(X, "format_stamp_micro", "Jan _2 15:04:05.000000")
	addConst(X, "format_stamp_nano", "Jan _2 15:04:05.000000000")
	addConst(X, "nanosecond", int64(1))
	addConst(X, "microsecond", int64(1000))
	addConst(X, "millisecond", int64(1000*1000))
	addConst(X, "second", int64(1000*1000*1000))
	addConst(X, "minute", int64(60*1000*1000*1000))
	addConst(X, "hour", int64(60*60*1000*1000*1000))
	for i, m := range []string{"january", "february", "march", "april", "may", "june", "july", "august",
		"september", "october", "november", "december"} {
		addConst(X, m, int64(i+1))
	}

	add(X, "sleep", "L>U", "time.Sleep", func(a A) (interface{}, error) { return nil, nil }, genNonPositive,
		withDom(func(a A) int {
			if a.L(0) > 0 {
				return domUnsafe // never sleeps in the check
			}
			return domOK
		}))
	add(X, "parse_duration", "S>I", "time.ParseDuration", func(a A) (interface{}, error) {
		d, err := time.ParseDuration(a.S(0))
		if err != nil {
			return nil, err
		}
		return int64(d), nil
	}, genDurationStr)
	// clock-dependent: only the rejection of wrong arity/types is judged
	add(X, "now", ">T", "time.Now", nil, nil, clockRow())
	add(X, "since", "T>I", "time.Since", nil, nil, clockRow())
	add(X, "until", "T>I", "time.Until", nil, nil, clockRow())

	d1 := func(name, ret, doc string, f func(d time.Duration) interface{}) {
		add(X, name, "L>"+ret, doc, func(a A) (interface{}, error) { return f(time.Duration(a.L(0))), nil }, genDuration)
	}
	d1("duration_hours", "F", "Duration.Hours", func(d time.Duration) interface{} { return d.Hours() })
	d1("duration_minutes", "F", "Duration.Minutes", func(d time.Duration) interface{} { return d.Minutes() })
	d1("duration_seconds", "F", "Duration.Seconds", func(d time.Duration) interface{} { return d.Seconds() })
	d1("duration_nanoseconds", "I", "Duration.Nanoseconds", func(d time.Duration) interface{} { return d.Nanoseconds() })
	d1("duration_string", "S", "Duration.String", func(d time.Duration) interface{} { return d.String() })
	add(X, "month_string", "L>S", "Month.String", func(a A) (interface{}, error) {
		return time.Month(a.L(0)).String(), nil
	}, genMonth)

	// date(year, month, day, hour, min, sec, nsec, loc): time.Date; "The Local
	// time zone will be used if executed without specifying a location"; a
	// location is given by name (time.LoadLocation), its error is a Go error.
	add(X, "date", "IIIIIII|S>T", "time.Date", func(a A) (interface{}, error) {
		loc := time.Local
		if len(a) == 8 {
			l, err := loadLocation(a.S(7))
			if err != nil {
				return nil, err
			}
			loc = l
		}
		return time.Date(a.I(0), time.Month(a.I(1)), a.I(2), a.I(3), a.I(4), a.I(5), a.I(6), loc), nil
	}, genDate)
	add(X, "parse", "SS>T", "time.Parse", func(a A) (interface{}, error) {
		t, err := time.Parse(a.S(0), a.S(1))
		if err != nil {
			return nil, err
		}
		return t, nil
	}, genParseTime)
	add(X, "unix", "LL>T", "time.Unix", func(a A) (interface{}, error) { return time.Unix(a.L(0), a.L(1)), nil }, genUnix)
	add(X, "add", "TL>T", "Time.Add", func(a A) (interface{}, error) {
		return a.T(0).Add(time.Duration(a.L(1))), nil
	}, genTimeDur)
	add(X, "add_date", "TIII>T", "Time.AddDate", func(a A) (interface{}, error) {
		return a.T(0).AddDate(a.I(1), a.I(2), a.I(3)), nil
	}, genAddDate)
	add(X, "sub", "TT>I", "Time.Sub", func(a A) (interface{}, error) { return int64(a.T(0).Sub(a.T(1))), nil }, genTimePair)
	add(X, "after", "TT>B", "Time.After", func(a A) (interface{}, error) { return a.T(0).After(a.T(1)), nil }, genTimePair)
	add(X, "before", "TT>B", "Time.Before", func(a A) (interface{}, error) { return a.T(0).Before(a.T(1)), nil }, genTimePair)

	t1 := func(name, ret, doc string, f func(t time.Time) interface{}, opts ...opt) {
		add(X, name, "T>"+ret, doc, func(a A) (interface{}, error) { return f(a.T(0)), nil }, genTimes, opts...)
	}
	t1("time_year", "I", "Time.Year", func(t time.Time) interface{} { return t.Year() })
	t1("time_month", "I", "Time.Month", func(t time.Time) interface{} { return int(t.Month()) })
	t1("time_day", "I", "Time.Day", func(t time.Time) interface{} { return t.Day() })
	t1("time_weekday", "I", "Time.Weekday", func(t time.Time) interface{} { return int(t.Weekday()) })
	t1("time_hour", "I", "Time.Hour", func(t time.Time) interface{} { return t.Hour() })
	t1("time_minute", "I", "Time.Minute", func(t time.Time) interface{} { return t.Minute() })
	t1("time_second", "I", "Time.Second", func(t time.Time) interface{} { return t.Second() })
	t1("time_nanosecond", "I", "Time.Nanosecond", func(t time.Time) interface{} { return t.Nanosecond() })
	t1("time_unix", "I", "Time.Unix", func(t time.Time) interface{} { return t.Unix() })
	t1("time_unix_nano", "I", "Time.UnixNano", func(t time.Time) interface{} { return t.UnixNano() })
	t1("time_location", "S", "Time.Location().String", func(t time.Time) interface{} { return t.Location().String() })
	t1("time_string", "S", "Time.String", func(t time.Time) interface{} { return t.String() })
	t1("is_zero", "B", "Time.IsZero", func(t time.Time) interface{} { return t.IsZero() })
	t1("to_local", "T", "Time.Local", func(t time.Time) interface{} { return t.Local() })
	t1("to_utc", "T", "Time.UTC", func(t time.Time) interface{} { return t.UTC() })
	add(X, "time_format", "TS>S", "Time.Format", func(a A) (interface{}, error) {
		return a.T(0).Format(a.S(1)), nil
	}, genTimeFormat, limited())
	add(X, "in_location", "TS>T", "Time.In(time.LoadLocation)", func(a A) (interface{}, error) {
		l, err := loadLocation(a.S(1))
		if err != nil {
			return nil, err
		}
		return a.T(0).In(l), nil
	}, genInLocation)
}
