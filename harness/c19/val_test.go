package c19

// JSON-serialisable argument values for replay files. tv.Spec is not used
// because the time zone *name* matters here (time_location, time_string,
// in_location): a location is recorded by name and rebuilt by name.

import (
	"encoding/hex"
	"math"
	"sort"
	"strconv"
	"time"

	"github.com/d5/tengo/v2"
)

type val struct {
	K    string   `json:"k"`
	I    int64    `json:"i,omitempty"`
	Bits string   `json:"bits,omitempty"`
	Hex  string   `json:"hex,omitempty"`
	Txt  string   `json:"txt,omitempty"` // echo only
	B    bool     `json:"b,omitempty"`
	Sec  int64    `json:"sec,omitempty"`
	Nsec int64    `json:"nsec,omitempty"`
	Loc  string   `json:"loc,omitempty"`
	Zero bool     `json:"zero,omitempty"`
	Kids []*val   `json:"kids,omitempty"`
	Keys []string `json:"keys,omitempty"`
}

// zones used by the time generators; every generated time carries one of
// these locations so that a replay can rebuild it by name.
var fixedP5 = time.FixedZone("P5", 5*3600)
var fixedM330 = time.FixedZone("M330", -(3*3600 + 1800))

var ianaNames = []string{"America/New_York", "Asia/Kolkata", "Europe/London", "Australia/Lord_Howe"}

func locByName(name string) *time.Location {
	switch name {
	case "UTC", "":
		return time.UTC
	case "Local":
		return time.Local
	case "P5":
		return fixedP5
	case "M330":
		return fixedM330
	}
	if l, err := loadLocation(name); err == nil {
		return l
	}
	return time.UTC
}

// loadLocation is time.LoadLocation memoized (it reads the zone file from
// disk on every call). "Local" is not cached: it is the variable time.Local.
type locResult struct {
	loc *time.Location
	err error
}

var locCache = map[string]locResult{}

func loadLocation(name string) (*time.Location, error) {
	if name == "Local" || name == "" || name == "UTC" {
		return time.LoadLocation(name)
	}
	if r, ok := locCache[name]; ok {
		return r.loc, r.err
	}
	l, err := time.LoadLocation(name)
	locCache[name] = locResult{l, err}
	return l, err
}

func locName(t time.Time) string {
	l := t.Location()
	if l == time.Local {
		return "Local"
	}
	return l.String()
}

func toVal(o tengo.Object) *val {
	switch v := o.(type) {
	case nil:
		return &val{K: "gonil"}
	case *tengo.Int:
		return &val{K: "int", I: v.Value}
	case *tengo.Float:
		return &val{K: "float", Bits: strconv.FormatUint(math.Float64bits(v.Value), 16), Txt: strconv.FormatFloat(v.Value, 'g', -1, 64)}
	case *tengo.Char:
		return &val{K: "char", I: int64(v.Value)}
	case *tengo.String:
		return &val{K: "string", Hex: hex.EncodeToString([]byte(v.Value)), Txt: strconv.QuoteToASCII(v.Value)}
	case *tengo.Bytes:
		return &val{K: "bytes", Hex: hex.EncodeToString(v.Value), Txt: strconv.QuoteToASCII(string(v.Value))}
	case *tengo.Bool:
		return &val{K: "bool", B: !v.IsFalsy()}
	case *tengo.Undefined:
		return &val{K: "undefined"}
	case *tengo.Time:
		if v.Value == (time.Time{}) {
			return &val{K: "time", Zero: true}
		}
		return &val{K: "time", Sec: v.Value.Unix(), Nsec: int64(v.Value.Nanosecond()), Loc: locName(v.Value), Txt: v.Value.String()}
	case *tengo.Error:
		return &val{K: "error", Kids: []*val{toVal(v.Value)}}
	case *tengo.Array:
		return seqVal("array", v.Value)
	case *tengo.ImmutableArray:
		return seqVal("imm-array", v.Value)
	case *tengo.Map:
		return mapVal("map", v.Value)
	case *tengo.ImmutableMap:
		return mapVal("imm-map", v.Value)
	case *tengo.BuiltinFunction:
		return &val{K: "builtin", Txt: v.Name}
	case *tengo.UserFunction:
		return &val{K: "userfn"}
	}
	return &val{K: "undefined", Txt: "unsupported " + o.TypeName()}
}

func seqVal(k string, xs []tengo.Object) *val {
	v := &val{K: k}
	for _, x := range xs {
		v.Kids = append(v.Kids, toVal(x))
	}
	return v
}

func mapVal(k string, m map[string]tengo.Object) *val {
	v := &val{K: k}
	keys := make([]string, 0, len(m))
	for key := range m {
		keys = append(keys, key)
	}
	sort.Strings(keys)
	for _, key := range keys {
		v.Keys = append(v.Keys, hex.EncodeToString([]byte(key)))
		v.Kids = append(v.Kids, toVal(m[key]))
	}
	return v
}

func toVals(xs []tengo.Object) []*val {
	out := make([]*val, len(xs))
	for i, x := range xs {
		out[i] = toVal(x)
	}
	return out
}

var theUserFn = &tengo.UserFunction{Name: "uf", Value: func(args ...tengo.Object) (tengo.Object, error) {
	return tengo.UndefinedValue, nil
}}

func builtinByName(name string) tengo.Object {
	for _, f := range tengo.GetAllBuiltinFunctions() {
		if f.Name == name {
			return f
		}
	}
	return theUserFn
}

func (v *val) obj() tengo.Object {
	if v == nil {
		return tengo.UndefinedValue
	}
	switch v.K {
	case "int":
		return &tengo.Int{Value: v.I}
	case "float":
		b, _ := strconv.ParseUint(v.Bits, 16, 64)
		return &tengo.Float{Value: math.Float64frombits(b)}
	case "char":
		return &tengo.Char{Value: rune(v.I)}
	case "string":
		b, _ := hex.DecodeString(v.Hex)
		return &tengo.String{Value: string(b)}
	case "bytes":
		b, _ := hex.DecodeString(v.Hex)
		if b == nil {
			b = []byte{}
		}
		return &tengo.Bytes{Value: b}
	case "bool":
		if v.B {
			return tengo.TrueValue
		}
		return tengo.FalseValue
	case "time":
		if v.Zero {
			return &tengo.Time{}
		}
		return &tengo.Time{Value: time.Unix(v.Sec, v.Nsec).In(locByName(v.Loc))}
	case "error":
		var inner tengo.Object = tengo.UndefinedValue
		if len(v.Kids) > 0 {
			inner = v.Kids[0].obj()
		}
		return &tengo.Error{Value: inner}
	case "array", "imm-array":
		xs := make([]tengo.Object, 0, len(v.Kids))
		for _, k := range v.Kids {
			xs = append(xs, k.obj())
		}
		if v.K == "array" {
			return &tengo.Array{Value: xs}
		}
		return &tengo.ImmutableArray{Value: xs}
	case "map", "imm-map":
		m := make(map[string]tengo.Object, len(v.Kids))
		for i, k := range v.Kids {
			kb, _ := hex.DecodeString(v.Keys[i])
			m[string(kb)] = k.obj()
		}
		if v.K == "map" {
			return &tengo.Map{Value: m}
		}
		return &tengo.ImmutableMap{Value: m}
	case "builtin":
		return builtinByName(v.Txt)
	case "userfn":
		return theUserFn
	}
	return tengo.UndefinedValue
}

func fromVals(vs []*val) []tengo.Object {
	out := make([]tengo.Object, len(vs))
	for i, v := range vs {
		out[i] = v.obj()
	}
	return out
}
