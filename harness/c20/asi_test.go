package c20

// (b) automatic semicolon insertion.
//
// The rule (property statement): a newline directly after an identifier, a
// literal, one of break continue return export true false undefined, one of
// ) ] }, or ++ -- ends the statement, i.e. stands for ';'. After any other
// token a newline is white space. A comment counts as the newline it contains
// (or that ends it), otherwise as a blank.
//
// TestSemicolonEquivalence: a generated program laid out canonically (single
// blanks, ';' between statements) and laid out freely (each separator either a
// ';' form or, after a terminating token, a newline form; newlines, line and
// block comments after every non-terminating token; blanks/comments without
// newline anywhere) must give the identical tree - which must also be the
// generated tree.
//
// TestSemicolonNewlineVsSemi: a newline put after a terminating token in the
// middle of a statement must have exactly the effect of a ';' put there: both
// texts fail to parse, or both parse to the same tree. One exception is
// grounded in docs/tutorial.md ("Selector and Indexer": the multi-line map
// literal whose last element is followed by a newline and '}'): a newline
// between the last element of a call/array/map list and its closing token is
// ignored; there the newline text must parse to the tree of the canonical text
// (implementation behaviour for ')' and ']', documented by example for '}').

import (
	"strings"
	"testing"

	"pgregory.net/rapid"

	"verifharness/ev"
)

type asiPayload struct {
	Mode string `json:"mode"` // equiv | nlsemi | closer
	A    string `json:"a"`
	B    string `json:"b"`
	Want string `json:"want,omitempty"` // S-expression of the generated program (equiv, closer)
	Prev string `json:"prev,omitempty"` // token before the varied gap (nlsemi, closer)
}

type asiInfo struct {
	layout  layoutStats
	prog    *progInfo
	nlOther int // newlines after non-terminating tokens added to both texts
}

func checkASI(t ev.TB, test string, p asiPayload, info *asiInfo) {
	fa, ea, pa := parseSrc(p.A)
	fb, eb, pb := parseSrc(p.B)
	if pa != nil || pb != nil {
		ev.Fail(t, test, p, "parser panicked: %v / %v", pa, pb)
		return
	}
	cls := []string{"b:" + p.Mode}
	nontrivial := false
	switch p.Mode {
	case "equiv", "closer":
		if ea != nil {
			ev.Fail(t, test, p, "canonical layout of a generated program does not parse: %v\n text: %q", ea, clip(p.A))
			return
		}
		if eb != nil {
			what := "layout using only newlines after terminating tokens / white space after non-terminating ones"
			if p.Mode == "closer" {
				what = "newline between the last list element and its closing token (after " + p.Prev + ")"
			}
			ev.Fail(t, test, p, "%s does not parse: %v\n canonical: %q\n varied:    %q", what, eb, clip(p.A), clip(p.B))
			return
		}
		ta, tb := fileSexpr(fa), fileSexpr(fb)
		if p.Want != "" && ta != p.Want {
			ev.Fail(t, test, p, "canonical text parses to a tree other than the generated one:\n text: %q\n want:  %s\n tengo: %s", clip(p.A), clip(p.Want), clip(ta))
			return
		}
		if ta != tb {
			ev.Fail(t, test, p, "equivalent layouts give different trees:\n canonical: %q\n varied:    %q\n tree A: %s\n tree B: %s", clip(p.A), clip(p.B), clip(ta), clip(tb))
			return
		}
		if p.Mode == "closer" {
			cls = append(cls, "b:closer-after "+tokClass(p.Prev))
			nontrivial = info != nil && info.nlOther > 0
		}
	case "nlsemi":
		switch {
		case (ea == nil) != (eb == nil):
			ev.Fail(t, test, p, "a newline after the terminating token %s does not act like ';':\n newline text: %q => %v\n ';' text:     %q => %v", p.Prev, clip(p.A), errStr(ea), clip(p.B), errStr(eb))
			return
		case ea != nil:
			cls = append(cls, "b:nlsemi-both-rejected")
		default:
			ta, tb := fileSexpr(fa), fileSexpr(fb)
			if ta != tb {
				ev.Fail(t, test, p, "a newline after the terminating token %s gives a tree other than ';' does:\n newline text: %q\n ';' text:     %q\n tree A: %s\n tree B: %s", p.Prev, clip(p.A), clip(p.B), clip(ta), clip(tb))
				return
			}
			cls = append(cls, "b:nlsemi-both-parse")
		}
		cls = append(cls, "b:nlsemi-after "+tokClass(p.Prev))
		nontrivial = info != nil && info.nlOther > 0
	default:
		t.Fatalf("unknown mode %q", p.Mode)
		return
	}
	if info != nil && p.Mode == "equiv" {
		l := info.layout
		nontrivial = l.nlAfterTerm >= 1 && l.nlAfterNonTerm >= 1
		if l.nlAfterTerm > 0 {
			cls = append(cls, "b:newline-as-separator")
		}
		if l.nlAfterNonTerm > 0 {
			cls = append(cls, "b:newline-after-nonterminating")
		}
		if l.comments > 0 {
			cls = append(cls, "b:comments")
		}
		if l.tight > 0 {
			cls = append(cls, "b:no-white-space")
		}
		for c := range info.prog.classes {
			cls = append(cls, "b:prog "+c)
		}
	}
	ev.Case("b"+p.Mode+p.B, nontrivial, cls...)
	if nontrivial && ev.WantSample() && len(p.B) < 200 && len(p.B) > 30 {
		ev.Sample(map[string]string{"kind": "semicolon-" + p.Mode, "a": p.A, "b": p.B})
	}
}

func errStr(err error) string {
	if err == nil {
		return "parses"
	}
	return firstLine(err.Error())
}

func tokClass(s string) string {
	if s == "" {
		return "?"
	}
	switch {
	case keywords[s], s == ")", s == "]", s == "}", s == "++", s == "--":
		return s
	case isNumberTok(s):
		return "number"
	case s[0] == '"' || s[0] == '`':
		return "string"
	case s[0] == '\'':
		return "char"
	}
	return "identifier"
}

func drawTrailer(t *rapid.T, list []*stmt) string {
	if lastIsEmpty(list) {
		return rapid.SampledFrom([]string{"", "\n", " // c", " "}).Draw(t, "trailer")
	}
	return rapid.SampledFrom(trailers).Draw(t, "trailer")
}

func TestSemicolonEquivalence(t *testing.T) {
	rapid.Check(t, func(t *rapid.T) {
		list, pinfo := drawProgram(t)
		st := programStream(list)
		info := &asiInfo{prog: pinfo}
		a := render(st, "canon", fixedChooser(0), nil)
		b := render(st, "free", rapidChooser{t}, &info.layout) + drawTrailer(t, list)
		checkASI(t, "TestSemicolonEquivalence", asiPayload{Mode: "equiv", A: a, B: b, Want: programSexpr(list)}, info)
	})
}

// renderAt: canonical layout, except that gap `at` is written as atText and
// the gaps in nl (all after non-terminating tokens) as newlines.
func renderAt(st *stream, at int, atText string, nl map[int]bool) string {
	var sb strings.Builder
	for i, tk := range st.toks {
		if i > 0 {
			switch {
			case i == at:
				sb.WriteString(atText)
			case nl[i]:
				sb.WriteString("\n")
			case st.gaps[i] == gSep:
				sb.WriteString(" ; ")
			default:
				sb.WriteString(" ")
			}
		}
		sb.WriteString(tk.s)
	}
	return sb.String()
}

func TestSemicolonNewlineVsSemi(t *testing.T) {
	rapid.Check(t, func(t *rapid.T) {
		list, pinfo := drawProgram(t)
		st := programStream(list)
		// candidate gaps: inside a statement, directly after a terminating token
		byClass := map[string][]int{}
		var classes []string
		for i := 1; i < len(st.toks); i++ {
			if (st.gaps[i] == gIn || st.gaps[i] == gCloser) && st.toks[i-1].term {
				c := tokClass(st.toks[i-1].s)
				if st.gaps[i] == gCloser {
					c += " closer"
				}
				if _, ok := byClass[c]; !ok {
					classes = append(classes, c)
				}
				byClass[c] = append(byClass[c], i)
			}
		}
		if len(classes) == 0 {
			ev.Discard("b: program without a terminating token inside a statement")
			return
		}
		// classes are in order of first appearance (deterministic); pick a
		// class first so that rare tokens (++ -- undefined ...) get their share
		c := rapid.SampledFrom(classes).Draw(t, "class")
		at := rapid.SampledFrom(byClass[c]).Draw(t, "gap")
		info := &asiInfo{prog: pinfo}
		nl := map[int]bool{}
		if rapid.IntRange(0, 3).Draw(t, "others") > 0 {
			for i := 1; i < len(st.toks); i++ {
				if i != at && st.gaps[i] == gIn && !st.toks[i-1].term && rapid.IntRange(0, 3).Draw(t, "nl") == 0 {
					nl[i] = true
					info.nlOther++
				}
			}
		}
		prev := st.toks[at-1].s
		nlText := rapid.SampledFrom([]string{"\n", "\n", " \n ", "\r\n", " // c\n", " /* a\nb */ ", " /* c */ \n"}).Draw(t, "nltext")
		if st.gaps[at] == gCloser {
			p := asiPayload{Mode: "closer", A: renderAt(st, -1, "", nl), B: renderAt(st, at, nlText, nl),
				Want: programSexpr(list), Prev: prev}
			checkASI(t, "TestSemicolonNewlineVsSemi", p, info)
			return
		}
		p := asiPayload{Mode: "nlsemi", A: renderAt(st, at, nlText, nl), B: renderAt(st, at, " ; ", nl), Prev: prev}
		checkASI(t, "TestSemicolonNewlineVsSemi", p, info)
	})
}
