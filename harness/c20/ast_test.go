package c20

// The harness's own syntax trees, its own printer (minimal parentheses derived
// from the documented precedence table), the token/gap stream the printer
// produces, and the layout renderer that turns a token stream into text with
// chosen white space, comments, newlines and separators.
//
// Nothing here calls into tengo: the documented grammar is modelled
// independently so that tengo's parser can be compared against it.

import (
	"strings"
)

type kind int

const (
	kAtom      kind = iota // text (identifier, literal, true/false/undefined)
	kUn                    // op kids[0]
	kBin                   // kids[0] op kids[1]
	kCond                  // kids[0] ? kids[1] : kids[2]
	kCall                  // kids[0](kids[1:]...) spread => last argument followed by ...
	kIndex                 // kids[0][kids[1]]
	kSlice                 // kids[0][kids[1]:kids[2]]  (kids[1], kids[2] may be nil)
	kSel                   // kids[0].text
	kArray                 // [kids...]
	kMap                   // {keys[i]: kids[i]}
	kFunc                  // func(params) { body }
	kError                 // error(kids[0])
	kImmutable             // immutable(kids[0])
	kImport                // import("text")
)

type expr struct {
	k       kind
	op      string
	text    string
	kids    []*expr
	keys    []string
	spread  bool
	params  []string
	varargs bool
	body    []*stmt
	parens  int // redundant parentheses around this node
}

type stmt struct {
	k    string // expr assign incdec return break continue if for forin export empty block
	op   string
	x, y *expr
	init *stmt
	post *stmt
	body []*stmt
	els  *stmt // nil, an "if" or a "block"
	key  string
	val  string
}

// ---------- documented precedence table (docs/tutorial.md, Operator Precedences) ----------

var binLevels = map[string]int{
	"*": 5, "/": 5, "%": 5, "<<": 5, ">>": 5, "&": 5, "&^": 5,
	"+": 4, "-": 4, "|": 4, "^": 4,
	"==": 3, "!=": 3, "<": 3, "<=": 3, ">": 3, ">=": 3,
	"&&": 2,
	"||": 1,
}

var binOps = []string{"*", "/", "%", "<<", ">>", "&", "&^", "+", "-", "|", "^",
	"==", "!=", "<", "<=", ">", ">=", "&&", "||"}

var unOps = []string{"+", "-", "!", "^"}

const (
	precCond    = 0 // ternary: lowest
	precUnary   = 6 // unary: above the five binary levels
	precPrimary = 7 // operands and postfix chains
)

func precOf(e *expr) int {
	switch e.k {
	case kCond:
		return precCond
	case kBin:
		return binLevels[e.op]
	case kUn:
		return precUnary
	}
	return precPrimary
}

// ---------- token stream ----------

type gapKind int

const (
	gIn     gapKind = iota // inside a statement: white space only
	gSep                   // mandatory separator: ';' or (after a terminating token) a newline
	gOptSep                // optional separator before the '}' of a block / function body
	gCloser                // before the closing ) ] } of a call / array / map with >= 1 element
)

type tok struct {
	s    string
	term bool // the documented rule: a newline right after this token ends the statement
}

type stream struct {
	toks []tok
	gaps []gapKind // gaps[i] is the gap before toks[i]; gaps[0] unused
	next gapKind
}

var terminatingKeywords = map[string]bool{"break": true, "continue": true, "return": true,
	"export": true, "true": true, "false": true, "undefined": true}

var keywords = map[string]bool{"break": true, "continue": true, "else": true, "for": true,
	"func": true, "error": true, "immutable": true, "if": true, "return": true, "export": true,
	"true": true, "false": true, "in": true, "undefined": true, "import": true}

func isWordByte(c byte) bool {
	return c == '_' || c >= 0x80 || ('a' <= c && c <= 'z') || ('A' <= c && c <= 'Z') || ('0' <= c && c <= '9')
}

func isDigitByte(c byte) bool { return '0' <= c && c <= '9' }

func isNumberTok(s string) bool {
	return isDigitByte(s[0]) || (s[0] == '.' && len(s) > 1 && isDigitByte(s[1]))
}

// isTerminating is the token rule of the property statement: a newline after
// an identifier, a literal, break continue return export true false
// undefined, ) ] }, ++ -- ends the statement; after anything else it is
// white space.
func isTerminating(s string) bool {
	switch s {
	case ")", "]", "}", "++", "--":
		return true
	}
	c := s[0]
	switch {
	case isNumberTok(s):
		return true
	case c == '"' || c == '\'' || c == '`':
		return true
	case isWordByte(c):
		if keywords[s] {
			return terminatingKeywords[s]
		}
		return true
	}
	return false
}

func (st *stream) put(s string) {
	st.toks = append(st.toks, tok{s, isTerminating(s)})
	st.gaps = append(st.gaps, st.next)
	st.next = gIn
}

func (st *stream) gap(g gapKind) { st.next = g }

// ---------- printer: expressions with minimal parentheses ----------

func (st *stream) expr(e *expr, min int) {
	if e.parens > 0 {
		inner := *e
		inner.parens--
		st.put("(")
		st.expr(&inner, precCond)
		st.put(")")
		return
	}
	if precOf(e) < min {
		st.put("(")
		st.expr(e, precCond)
		st.put(")")
		return
	}
	switch e.k {
	case kAtom:
		st.put(e.text)
	case kUn:
		st.put(e.op)
		st.expr(e.kids[0], precUnary) // unary binds tighter than every binary level
	case kBin:
		p := binLevels[e.op]
		st.expr(e.kids[0], p) // left-associative: same level allowed on the left
		st.put(e.op)
		st.expr(e.kids[1], p+1)
	case kCond:
		st.expr(e.kids[0], 1) // the condition is a binary-level expression
		st.put("?")
		st.expr(e.kids[1], precCond)
		st.put(":")
		st.expr(e.kids[2], precCond) // right-associative
	case kCall:
		st.expr(e.kids[0], precPrimary)
		st.put("(")
		for i, a := range e.kids[1:] {
			if i > 0 {
				st.put(",")
			}
			st.expr(a, precCond)
		}
		if e.spread {
			st.put("...")
		}
		if len(e.kids) > 1 {
			st.gap(gCloser)
		}
		st.put(")")
	case kIndex:
		st.expr(e.kids[0], precPrimary)
		st.put("[")
		st.expr(e.kids[1], precCond)
		st.put("]")
	case kSlice:
		st.expr(e.kids[0], precPrimary)
		st.put("[")
		if e.kids[1] != nil {
			st.expr(e.kids[1], precCond)
		}
		st.put(":")
		if e.kids[2] != nil {
			st.expr(e.kids[2], precCond)
		}
		st.put("]")
	case kSel:
		st.expr(e.kids[0], precPrimary)
		st.put(".")
		st.put(e.text)
	case kArray:
		st.put("[")
		for i, a := range e.kids {
			if i > 0 {
				st.put(",")
			}
			st.expr(a, precCond)
		}
		if len(e.kids) > 0 {
			st.gap(gCloser)
		}
		st.put("]")
	case kMap:
		st.put("{")
		for i, a := range e.kids {
			if i > 0 {
				st.put(",")
			}
			st.put(e.keys[i])
			st.put(":")
			st.expr(a, precCond)
		}
		if len(e.kids) > 0 {
			st.gap(gCloser)
		}
		st.put("}")
	case kFunc:
		st.put("func")
		st.put("(")
		for i, p := range e.params {
			if i > 0 {
				st.put(",")
			}
			if e.varargs && i == len(e.params)-1 {
				st.put("...")
			}
			st.put(p)
		}
		st.put(")")
		st.block(e.body)
	case kError, kImmutable:
		if e.k == kError {
			st.put("error")
		} else {
			st.put("immutable")
		}
		st.put("(")
		st.expr(e.kids[0], precCond)
		st.put(")")
	case kImport:
		st.put("import")
		st.put("(")
		st.put(`"` + e.text + `"`)
		st.put(")")
	}
}

// ---------- printer: statements ----------

// headExpr prints the expression that directly follows the keyword of an if
// or for header. Like Go, tengo reads a '{' in that position as the start of
// the block (`for {` is the bare loop, `if {` is "missing condition"); the
// docs are silent, so the implementation is followed: an expression whose
// first token would be '{' (a map literal in leftmost position) is wrapped in
// parentheses there.
func (st *stream) headExpr(e *expr) {
	tmp := &stream{}
	tmp.expr(e, precCond)
	if tmp.toks[0].s == "{" {
		st.put("(")
		st.expr(e, precCond)
		st.put(")")
		return
	}
	st.expr(e, precCond)
}

func (st *stream) headSimple(s *stmt) {
	st.headExpr(s.x)
	switch s.k {
	case "assign":
		st.put(s.op)
		st.expr(s.y, precCond)
	case "incdec":
		st.put(s.op)
	}
}

func (st *stream) block(body []*stmt) {
	st.put("{")
	st.stmts(body)
	if len(body) > 0 && body[len(body)-1].k != "empty" {
		st.gap(gOptSep)
	}
	st.put("}")
}

func (st *stream) stmts(list []*stmt) {
	for i, s := range list {
		if i > 0 && list[i-1].k != "empty" {
			// an empty statement is its own ';' and takes no separator
			st.gap(gSep)
		}
		st.stmt(s)
	}
}

func (st *stream) simple(s *stmt) {
	switch s.k {
	case "expr":
		st.expr(s.x, precCond)
	case "assign":
		st.expr(s.x, precCond)
		st.put(s.op)
		st.expr(s.y, precCond)
	case "incdec":
		st.expr(s.x, precCond)
		st.put(s.op)
	}
}

func (st *stream) stmt(s *stmt) {
	switch s.k {
	case "expr", "assign", "incdec":
		st.simple(s)
	case "return":
		st.put("return")
		if s.x != nil {
			st.expr(s.x, precCond)
		}
	case "export":
		st.put("export")
		st.expr(s.x, precCond)
	case "break", "continue":
		st.put(s.k)
	case "empty":
		// an empty statement is an explicit ';' that must stay one
		st.put(";")
	case "if":
		st.put("if")
		if s.init != nil {
			st.headSimple(s.init)
			st.gap(gSep)
			st.expr(s.x, precCond)
		} else {
			st.headExpr(s.x)
		}
		st.block(s.body)
		if s.els != nil {
			st.put("else")
			if s.els.k == "block" {
				st.block(s.els.body)
			} else {
				st.stmt(s.els)
			}
		}
	case "for":
		st.put("for")
		if s.init != nil || s.post != nil || s.op == "3" {
			// three-clause form: a present clause is followed by a separator
			// gap (';' or, its last token being a terminating one, a newline);
			// an absent clause leaves a literal ';' token
			if s.init != nil {
				st.headSimple(s.init)
				st.gap(gSep)
			} else {
				st.put(";")
			}
			if s.x != nil {
				st.expr(s.x, precCond)
				st.gap(gSep)
			} else {
				st.put(";")
			}
			if s.post != nil {
				st.simple(s.post)
			}
		} else if s.x != nil {
			st.headExpr(s.x)
		}
		st.block(s.body)
	case "forin":
		st.put("for")
		if s.key != "" {
			st.put(s.key)
			st.put(",")
		}
		st.put(s.val)
		st.put("in")
		st.expr(s.x, precCond)
		st.block(s.body)
	}
}

// ---------- S-expression of the harness tree (what tengo's tree must equal) ----------

func sexpr(e *expr) string {
	var sb strings.Builder
	writeSexpr(&sb, e)
	return sb.String()
}

func writeSexpr(sb *strings.Builder, e *expr) {
	if e == nil {
		sb.WriteString("_")
		return
	}
	switch e.k {
	case kAtom:
		sb.WriteString(e.text)
	case kUn:
		sb.WriteString("(u" + e.op + " ")
		writeSexpr(sb, e.kids[0])
		sb.WriteString(")")
	case kBin:
		sb.WriteString("(" + e.op + " ")
		writeSexpr(sb, e.kids[0])
		sb.WriteString(" ")
		writeSexpr(sb, e.kids[1])
		sb.WriteString(")")
	case kCond:
		sb.WriteString("(? ")
		writeSexpr(sb, e.kids[0])
		sb.WriteString(" ")
		writeSexpr(sb, e.kids[1])
		sb.WriteString(" ")
		writeSexpr(sb, e.kids[2])
		sb.WriteString(")")
	case kCall:
		if e.spread {
			sb.WriteString("(call...")
		} else {
			sb.WriteString("(call")
		}
		for _, k := range e.kids {
			sb.WriteString(" ")
			writeSexpr(sb, k)
		}
		sb.WriteString(")")
	case kIndex:
		sb.WriteString("(idx ")
		writeSexpr(sb, e.kids[0])
		sb.WriteString(" ")
		writeSexpr(sb, e.kids[1])
		sb.WriteString(")")
	case kSlice:
		sb.WriteString("(slice ")
		writeSexpr(sb, e.kids[0])
		sb.WriteString(" ")
		writeSexpr(sb, e.kids[1])
		sb.WriteString(" ")
		writeSexpr(sb, e.kids[2])
		sb.WriteString(")")
	case kSel:
		sb.WriteString("(sel ")
		writeSexpr(sb, e.kids[0])
		sb.WriteString(" " + e.text + ")")
	case kArray:
		sb.WriteString("(arr")
		for _, k := range e.kids {
			sb.WriteString(" ")
			writeSexpr(sb, k)
		}
		sb.WriteString(")")
	case kMap:
		sb.WriteString("(map")
		for i, k := range e.kids {
			sb.WriteString(" " + mapKeyName(e.keys[i]) + " ")
			writeSexpr(sb, k)
		}
		sb.WriteString(")")
	case kFunc:
		sb.WriteString("(func (" + strings.Join(e.params, " ") + ")")
		if e.varargs {
			sb.WriteString(" varargs")
		}
		sb.WriteString(" ")
		writeBlockSexpr(sb, e.body)
		sb.WriteString(")")
	case kError:
		sb.WriteString("(error ")
		writeSexpr(sb, e.kids[0])
		sb.WriteString(")")
	case kImmutable:
		sb.WriteString("(immutable ")
		writeSexpr(sb, e.kids[0])
		sb.WriteString(")")
	case kImport:
		sb.WriteString("(import " + e.text + ")")
	}
}

// mapKeyName: keys are written either as identifiers or as quoted
// identifiers ("k"); both denote the key k.
func mapKeyName(k string) string {
	if len(k) >= 2 && k[0] == '"' {
		return k[1 : len(k)-1]
	}
	return k
}

func writeBlockSexpr(sb *strings.Builder, body []*stmt) {
	sb.WriteString("(block")
	for _, s := range body {
		sb.WriteString(" ")
		writeStmtSexpr(sb, s)
	}
	sb.WriteString(")")
}

func writeOptStmt(sb *strings.Builder, s *stmt) {
	if s == nil {
		sb.WriteString("_")
		return
	}
	writeStmtSexpr(sb, s)
}

func writeStmtSexpr(sb *strings.Builder, s *stmt) {
	switch s.k {
	case "expr":
		sb.WriteString("(expr ")
		writeSexpr(sb, s.x)
		sb.WriteString(")")
	case "assign":
		sb.WriteString("(assign " + s.op + " ")
		writeSexpr(sb, s.x)
		sb.WriteString(" ")
		writeSexpr(sb, s.y)
		sb.WriteString(")")
	case "incdec":
		sb.WriteString("(incdec " + s.op + " ")
		writeSexpr(sb, s.x)
		sb.WriteString(")")
	case "return":
		sb.WriteString("(return ")
		writeSexpr(sb, s.x)
		sb.WriteString(")")
	case "export":
		sb.WriteString("(export ")
		writeSexpr(sb, s.x)
		sb.WriteString(")")
	case "break", "continue":
		sb.WriteString("(" + s.k + ")")
	case "empty":
		sb.WriteString("(empty)")
	case "block":
		writeBlockSexpr(sb, s.body)
	case "if":
		sb.WriteString("(if ")
		writeOptStmt(sb, s.init)
		sb.WriteString(" ")
		writeSexpr(sb, s.x)
		sb.WriteString(" ")
		writeBlockSexpr(sb, s.body)
		sb.WriteString(" ")
		writeOptStmt(sb, s.els)
		sb.WriteString(")")
	case "for":
		sb.WriteString("(for ")
		writeOptStmt(sb, s.init)
		sb.WriteString(" ")
		writeSexpr(sb, s.x)
		sb.WriteString(" ")
		writeOptStmt(sb, s.post)
		sb.WriteString(" ")
		writeBlockSexpr(sb, s.body)
		sb.WriteString(")")
	case "forin":
		key := s.key
		if key == "" {
			key = "_" // the one-variable form has no key
		}
		sb.WriteString("(forin " + key + " " + s.val + " ")
		writeSexpr(sb, s.x)
		sb.WriteString(" ")
		writeBlockSexpr(sb, s.body)
		sb.WriteString(")")
	}
}

func programSexpr(list []*stmt) string {
	var sb strings.Builder
	sb.WriteString("(file")
	for _, s := range list {
		sb.WriteString(" ")
		writeStmtSexpr(&sb, s)
	}
	sb.WriteString(")")
	return sb.String()
}

// ---------- layout ----------

// chooser abstracts rapid draws so that the renderer has no dependency on it.
type chooser interface {
	pick(label string, n int) int // 0 <= result < n
}

type fixedChooser int

func (f fixedChooser) pick(string, int) int { return 0 }

// safeAdjacent reports whether writing the two tokens without white space
// keeps them two tokens (conservative: false whenever in doubt).
func safeAdjacent(prev, next string) bool {
	a, b := prev[len(prev)-1], next[0]
	isBr := func(c byte) bool { return strings.IndexByte("()[]{},;", c) >= 0 }
	isQuote := func(c byte) bool { return c == '"' || c == '\'' || c == '`' }
	if isBr(a) || isBr(b) {
		return true
	}
	switch {
	case isWordByte(a) && isWordByte(b):
		return false
	case isWordByte(a) && b == '.':
		return !isNumberTok(prev) // 1.x would be scanned as the float "1."
	case a == '.' && isWordByte(b):
		return !isDigitByte(b) && prev == "." || prev == "..."
	case isQuote(a) && isQuote(b):
		return false
	case isWordByte(a) || isWordByte(b) || isQuote(a) || isQuote(b):
		return true
	}
	return false // operator next to operator: "- -", "& ^", "/ /" ...
}

// white space that never contains a newline
var wsFlat = []string{" ", "", "", "  ", "\t", " /* c */ ", " /**/ ", " /*/*/ ", " \r "}

// white space containing a newline: legal only after a non-terminating token
var wsBreak = []string{"\n", "\r\n", " // c\n", "\n\n\t", " /* a\nb */ ", " //\n", " // /* x\n  "}

// newline forms of a statement separator (legal after a terminating token)
var sepBreak = []string{"\n", "\r\n", " // c\n", " /* a\nb */ ", "\n\n", " /* c */ \n", "\n /* c */ ", " //\n  "}

// explicit forms of a statement separator (always legal)
var sepSemi = []string{";", "; ", " ; ", ";\n", "; // c\n", " /* c */ ; "}

type layoutStats struct {
	nlAfterTerm    int // newline-form separators placed after a terminating token
	nlAfterNonTerm int // newlines placed after a non-terminating token
	comments       int
	tight          int // tokens written without white space
	semis          int
}

func countComments(s string) int { return strings.Count(s, "/*") + strings.Count(s, "//") }

// render lays a token stream out. mode "canon": single blanks and ';'
// everywhere. mode "free": every gap gets a random legal choice:
//   - gIn after a non-terminating token: any white space incl. newlines/comments
//   - gIn / gCloser after a terminating token: white space without newline
//   - gSep: ';' forms, or (after a terminating token) newline forms
//   - gOptSep: nothing, ';' forms, or (after a terminating token) newline forms
func render(st *stream, mode string, ch chooser, stats *layoutStats) string {
	var sb strings.Builder
	for i, t := range st.toks {
		if i > 0 {
			prev := st.toks[i-1]
			g := st.gaps[i]
			switch {
			case mode == "canon":
				if g == gSep {
					sb.WriteString(" ; ")
				} else {
					sb.WriteString(" ")
				}
			case g == gSep:
				if prev.term && ch.pick("sepnl", 2) == 1 {
					s := sepBreak[ch.pick("sepbreak", len(sepBreak))]
					sb.WriteString(s)
					if stats != nil {
						stats.nlAfterTerm++
						stats.comments += countComments(s)
					}
				} else {
					s := sepSemi[ch.pick("sepsemi", len(sepSemi))]
					sb.WriteString(s)
					if stats != nil {
						stats.semis++
						stats.comments += countComments(s)
					}
				}
			case g == gOptSep:
				switch k := ch.pick("optsep", 4); {
				case k == 0:
					sb.WriteString(" ")
				case k == 1:
					sb.WriteString(sepSemi[ch.pick("sepsemi", len(sepSemi))])
					if stats != nil {
						stats.semis++
					}
				case k == 2 && prev.term:
					sb.WriteString(sepBreak[ch.pick("sepbreak", len(sepBreak))])
					if stats != nil {
						stats.nlAfterTerm++
					}
				default:
					if safeAdjacent(prev.s, t.s) {
						if stats != nil {
							stats.tight++
						}
					} else {
						sb.WriteString(" ")
					}
				}
			default: // gIn, gCloser
				var s string
				if !prev.term && g == gIn && ch.pick("brk", 3) == 0 {
					s = wsBreak[ch.pick("wsbreak", len(wsBreak))]
					if stats != nil {
						stats.nlAfterNonTerm++
					}
				} else {
					s = wsFlat[ch.pick("wsflat", len(wsFlat))]
				}
				if s == "" && !safeAdjacent(prev.s, t.s) {
					s = " "
				}
				if stats != nil {
					if s == "" {
						stats.tight++
					}
					stats.comments += countComments(s)
				}
				sb.WriteString(s)
			}
		}
		sb.WriteString(t.s)
	}
	return sb.String()
}

// trailer is what may follow the last token of a file: nothing, white space,
// a ';' or a newline (the last statement not being an empty one).
var trailers = []string{"", "", "\n", ";", " ;\n", " // c", " /* c */", "\n\n", " // c\n"}
