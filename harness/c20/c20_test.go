// C20 — parsing reflects the documented grammar and its own printed form.
//
// Four generators, four oracles (DESIGN.md §4 C20):
//
//	(a) prec_test.go  precedence/associativity: harness trees printed with minimal
//	                  parentheses must come back from tengo's parser with the same shape
//	(b) asi_test.go   automatic semicolon insertion: the documented token rule
//	(c) lit_test.go   literal spellings against go/scanner + go/constant
//	(d) rt_test.go    File.String() -> reparse -> recompile gives the same code
//
// ast_test.go holds the harness's own trees, printer and layout renderer,
// gen_test.go the program generator shared by (b) and (d).
package c20

import (
	"fmt"
	"os"
	"path/filepath"
	"sort"
	"strings"
	"testing"

	"github.com/d5/tengo/v2/parser"
	"pgregory.net/rapid"

	"verifharness/ev"
)

func TestMain(m *testing.M) { ev.Main(m, "C20") }

// openFindings: named exclusion switches for genuine defects of /repo (see
// FINDINGS.md). While a switch is on, the generators do not produce the exact
// pattern (counted as ev.Discard("known:<id>")) and TestKnownFindings re-runs
// the reproducer. Both findings are repaired in /repo by d85777c: the switches
// are off, the patterns are generated (classes selector-on-int-literal,
// spread-of-int-literal, for-cond-only-starting-with-brace) and judged by the
// round-trip oracle; the reproducers are under replays/C20/fixed.
var openFindings = map[string]bool{
	// File.String() printed a selector on a number literal (`1 .a`) as `1.a`,
	// which scans as the float "1." followed by an identifier (same for
	// `f(1 ...)`). Repaired: a blank is kept between the literal and '.'/'...'.
	"F-C20-1": false,
	// ForStmt.String() dropped the two ';' of `for ; cond ; {}`; when cond
	// starts with '{' (map literal) the printed `for {…} {}` did not reparse.
	// Repaired: the three-clause form is kept in that case.
	"F-C20-2": false,
}

// ---------- rapid adapter for the layout renderer ----------

type rapidChooser struct{ t *rapid.T }

func (r rapidChooser) pick(label string, n int) int {
	if n <= 1 {
		return 0
	}
	return rapid.IntRange(0, n-1).Draw(r.t, label)
}

// ---------- parsing with tengo ----------

func parseSrc(src string) (f *parser.File, err error, pan interface{}) {
	defer func() {
		if r := recover(); r != nil {
			pan = r
		}
	}()
	fs := parser.NewFileSet()
	sf := fs.AddFile("c20", -1, len(src))
	buf := []byte(src)
	p := parser.NewParser(sf, buf, nil)
	f, err = p.ParseFile()
	if string(buf) != src {
		// the same text must parse the same way every time it is parsed: the
		// caller's bytes (Script.input, a module's source) are not the parser's
		pan = fmt.Sprintf("the parser changed the source bytes it was given: %q became %q", src, buf)
		return
	}
	// and it does: a second parse of the same buffer prints the same tree
	fs2 := parser.NewFileSet()
	f2, err2 := parser.NewParser(fs2.AddFile("c20", -1, len(buf)), buf, nil).ParseFile()
	if (err == nil) != (err2 == nil) || (err == nil && f.String() != f2.String()) {
		pan = fmt.Sprintf("parsing the same bytes a second time gives a different result (%v / %v)", err, err2)
	}
	return
}

// ---------- S-expression of tengo's tree (ParenExpr skipped, positions ignored) ----------

func tExpr(sb *strings.Builder, e parser.Expr) {
	switch x := e.(type) {
	case nil:
		sb.WriteString("_")
	case *parser.ParenExpr:
		tExpr(sb, x.Expr)
	case *parser.Ident:
		sb.WriteString(x.Name)
	case *parser.IntLit:
		sb.WriteString(x.Literal)
	case *parser.FloatLit:
		sb.WriteString(x.Literal)
	case *parser.CharLit:
		sb.WriteString(x.Literal)
	case *parser.StringLit:
		sb.WriteString(x.Literal)
	case *parser.BoolLit:
		if x.Value {
			sb.WriteString("true")
		} else {
			sb.WriteString("false")
		}
	case *parser.UndefinedLit:
		sb.WriteString("undefined")
	case *parser.UnaryExpr:
		sb.WriteString("(u" + x.Token.String() + " ")
		tExpr(sb, x.Expr)
		sb.WriteString(")")
	case *parser.BinaryExpr:
		sb.WriteString("(" + x.Token.String() + " ")
		tExpr(sb, x.LHS)
		sb.WriteString(" ")
		tExpr(sb, x.RHS)
		sb.WriteString(")")
	case *parser.CondExpr:
		sb.WriteString("(? ")
		tExpr(sb, x.Cond)
		sb.WriteString(" ")
		tExpr(sb, x.True)
		sb.WriteString(" ")
		tExpr(sb, x.False)
		sb.WriteString(")")
	case *parser.CallExpr:
		if x.Ellipsis.IsValid() {
			sb.WriteString("(call... ")
		} else {
			sb.WriteString("(call ")
		}
		tExpr(sb, x.Func)
		for _, a := range x.Args {
			sb.WriteString(" ")
			tExpr(sb, a)
		}
		sb.WriteString(")")
	case *parser.IndexExpr:
		sb.WriteString("(idx ")
		tExpr(sb, x.Expr)
		sb.WriteString(" ")
		tExpr(sb, x.Index)
		sb.WriteString(")")
	case *parser.SliceExpr:
		sb.WriteString("(slice ")
		tExpr(sb, x.Expr)
		sb.WriteString(" ")
		tExpr(sb, x.Low)
		sb.WriteString(" ")
		tExpr(sb, x.High)
		sb.WriteString(")")
	case *parser.SelectorExpr:
		sb.WriteString("(sel ")
		tExpr(sb, x.Expr)
		sb.WriteString(" ")
		if s, ok := x.Sel.(*parser.StringLit); ok {
			sb.WriteString(s.Value)
		} else {
			tExpr(sb, x.Sel)
		}
		sb.WriteString(")")
	case *parser.ArrayLit:
		sb.WriteString("(arr")
		for _, a := range x.Elements {
			sb.WriteString(" ")
			tExpr(sb, a)
		}
		sb.WriteString(")")
	case *parser.MapLit:
		sb.WriteString("(map")
		for _, a := range x.Elements {
			sb.WriteString(" " + a.Key + " ")
			tExpr(sb, a.Value)
		}
		sb.WriteString(")")
	case *parser.FuncLit:
		sb.WriteString("(func (")
		for i, p := range x.Type.Params.List {
			if i > 0 {
				sb.WriteString(" ")
			}
			sb.WriteString(p.Name)
		}
		sb.WriteString(")")
		if x.Type.Params.VarArgs {
			sb.WriteString(" varargs")
		}
		sb.WriteString(" ")
		tStmt(sb, x.Body)
		sb.WriteString(")")
	case *parser.ErrorExpr:
		sb.WriteString("(error ")
		tExpr(sb, x.Expr)
		sb.WriteString(")")
	case *parser.ImmutableExpr:
		sb.WriteString("(immutable ")
		tExpr(sb, x.Expr)
		sb.WriteString(")")
	case *parser.ImportExpr:
		sb.WriteString("(import " + x.ModuleName + ")")
	case *parser.BadExpr:
		sb.WriteString("(BAD)")
	default:
		sb.WriteString(fmt.Sprintf("(UNKNOWN %T)", e))
	}
}

func tOptStmt(sb *strings.Builder, s parser.Stmt) {
	if s == nil {
		sb.WriteString("_")
		return
	}
	tStmt(sb, s)
}

func tStmt(sb *strings.Builder, s parser.Stmt) {
	switch x := s.(type) {
	case *parser.ExprStmt:
		sb.WriteString("(expr ")
		tExpr(sb, x.Expr)
		sb.WriteString(")")
	case *parser.AssignStmt:
		sb.WriteString("(assign " + x.Token.String())
		for _, e := range x.LHS {
			sb.WriteString(" ")
			tExpr(sb, e)
		}
		if len(x.LHS) != 1 || len(x.RHS) != 1 {
			sb.WriteString(" /")
		}
		for _, e := range x.RHS {
			sb.WriteString(" ")
			tExpr(sb, e)
		}
		sb.WriteString(")")
	case *parser.IncDecStmt:
		sb.WriteString("(incdec " + x.Token.String() + " ")
		tExpr(sb, x.Expr)
		sb.WriteString(")")
	case *parser.ReturnStmt:
		sb.WriteString("(return ")
		tExpr(sb, x.Result)
		sb.WriteString(")")
	case *parser.ExportStmt:
		sb.WriteString("(export ")
		tExpr(sb, x.Result)
		sb.WriteString(")")
	case *parser.BranchStmt:
		sb.WriteString("(" + x.Token.String())
		if x.Label != nil {
			sb.WriteString(" " + x.Label.Name)
		}
		sb.WriteString(")")
	case *parser.EmptyStmt:
		sb.WriteString("(empty)")
	case *parser.BlockStmt:
		sb.WriteString("(block")
		for _, b := range x.Stmts {
			sb.WriteString(" ")
			tStmt(sb, b)
		}
		sb.WriteString(")")
	case *parser.IfStmt:
		sb.WriteString("(if ")
		tOptStmt(sb, x.Init)
		sb.WriteString(" ")
		tExpr(sb, x.Cond)
		sb.WriteString(" ")
		tStmt(sb, x.Body)
		sb.WriteString(" ")
		tOptStmt(sb, x.Else)
		sb.WriteString(")")
	case *parser.ForStmt:
		sb.WriteString("(for ")
		tOptStmt(sb, x.Init)
		sb.WriteString(" ")
		tExpr(sb, x.Cond)
		sb.WriteString(" ")
		tOptStmt(sb, x.Post)
		sb.WriteString(" ")
		tStmt(sb, x.Body)
		sb.WriteString(")")
	case *parser.ForInStmt:
		sb.WriteString("(forin " + x.Key.Name + " " + x.Value.Name + " ")
		tExpr(sb, x.Iterable)
		sb.WriteString(" ")
		tStmt(sb, x.Body)
		sb.WriteString(")")
	case *parser.BadStmt:
		sb.WriteString("(BAD)")
	default:
		sb.WriteString(fmt.Sprintf("(UNKNOWN %T)", s))
	}
}

func exprSexpr(e parser.Expr) string {
	var sb strings.Builder
	tExpr(&sb, e)
	return sb.String()
}

func fileSexpr(f *parser.File) string {
	var sb strings.Builder
	sb.WriteString("(file")
	for _, s := range f.Stmts {
		sb.WriteString(" ")
		tStmt(&sb, s)
	}
	sb.WriteString(")")
	return sb.String()
}

func clip(s string) string {
	if len(s) > 600 {
		return s[:600] + "…"
	}
	return s
}

// ---------- replay ----------

func replayFile(t *testing.T, path string) {
	test := ev.ReplayTest(path)
	switch test {
	case "TestPrecedence":
		var p precPayload
		if _, err := ev.LoadReplay(path, &p); err != nil {
			t.Fatalf("load %s: %v", path, err)
		}
		checkPrecedence(t, test, p, nil)
	case "TestSemicolonEquivalence", "TestSemicolonNewlineVsSemi":
		var p asiPayload
		if _, err := ev.LoadReplay(path, &p); err != nil {
			t.Fatalf("load %s: %v", path, err)
		}
		checkASI(t, test, p, nil)
	case "TestLiterals", "FuzzLiteral":
		var p litPayload
		if _, err := ev.LoadReplay(path, &p); err != nil {
			t.Fatalf("load %s: %v", path, err)
		}
		checkLiteral(t, test, p.spelling(), "replay")
	case "TestPrintReparse", "TestPrintReparseSnippets":
		var p rtPayload
		if _, err := ev.LoadReplay(path, &p); err != nil {
			t.Fatalf("load %s: %v", path, err)
		}
		origin := "generated"
		if test == "TestPrintReparseSnippets" {
			origin = "snippet"
		}
		checkRoundTrip(t, test, p, origin, nil)
	default:
		t.Fatalf("unknown test %q in %s", test, path)
	}
}

func TestReplay(t *testing.T) {
	path := os.Getenv("VERIF_REPLAY")
	if path == "" {
		t.Skip("no VERIF_REPLAY")
	}
	if strings.HasSuffix(path, ".fuzz") {
		b, err := readFuzzFile(path)
		if err != nil {
			t.Fatal(err)
		}
		checkLiteral(t, "FuzzLiteral", string(b), "replay")
		return
	}
	replayFile(t, path)
}

func verifRoot() string {
	if r := os.Getenv("VERIF_ROOT"); r != "" {
		return r
	}
	return "/verif"
}

// TestRegressions re-runs every committed replay of a repaired defect: they
// must all pass.
func TestRegressions(t *testing.T) {
	files, _ := filepath.Glob(filepath.Join(verifRoot(), "replays", "C20", "fixed", "*.json"))
	sort.Strings(files)
	for _, f := range files {
		f := f
		t.Run(filepath.Base(f), func(t *testing.T) { replayFile(t, f) })
		ev.Note("regression replays run")
	}
}

// recorder lets TestKnownFindings run an oracle without failing the test.
type recorder struct{ msg string }

func (r *recorder) Fatalf(format string, args ...interface{}) {
	if r.msg == "" {
		r.msg = fmt.Sprintf(format, args...)
	}
}

// TestKnownFindings re-runs the committed reproducers of open findings
// through the same oracles. A reproducer that still fails is reported as
// KNOWN-FINDING (exit 0); one that no longer fails only leaves a note (the
// maintainer then turns the exclusion switch off and moves the replay to
// fixed/).
func TestKnownFindings(t *testing.T) {
	files, _ := filepath.Glob(filepath.Join(verifRoot(), "replays", "C20", "open", "*.json"))
	sort.Strings(files)
	for _, f := range files {
		id := strings.SplitN(filepath.Base(f), "_", 2)[0]
		var p rtPayload
		test, err := ev.LoadReplay(f, &p)
		if err != nil || test != "TestPrintReparse" {
			t.Fatalf("open replay %s: test=%q err=%v", f, test, err)
		}
		rec := &recorder{}
		checkRoundTrip(rec, test, p, "generated", nil)
		if rec.msg != "" {
			ev.Known(id, "parser.File.String() of `"+p.Src+"` does not reparse to the same program: "+firstLine(rec.msg))
		} else {
			ev.Note("open finding " + id + " no longer reproduces: " + filepath.Base(f))
			t.Logf("open finding %s no longer reproduces (%s)", id, f)
		}
		if !openFindings[id] {
			t.Logf("note: exclusion switch %s is off but an open replay exists", id)
		}
	}
}

func firstLine(s string) string {
	if i := strings.IndexByte(s, '\n'); i >= 0 {
		s = s[:i]
	}
	if len(s) > 200 {
		s = s[:200]
	}
	return s
}

func readFuzzFile(path string) ([]byte, error) {
	raw, err := os.ReadFile(path)
	if err != nil {
		return nil, err
	}
	lines := strings.Split(string(raw), "\n")
	for _, l := range lines[1:] {
		l = strings.TrimSpace(l)
		for _, pre := range []string{"[]byte(", "string("} {
			if strings.HasPrefix(l, pre) && strings.HasSuffix(l, ")") {
				s, err := strconvUnquote(l[len(pre) : len(l)-1])
				if err != nil {
					return nil, err
				}
				return []byte(s), nil
			}
		}
	}
	return nil, fmt.Errorf("no value in %s", path)
}
