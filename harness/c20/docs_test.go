package c20

// TestDocExamples: the examples of docs/tutorial.md that carry the four
// claims, run through the four oracles in every run (plain test, listed
// first so that the evidence samples show one case of every kind).

import "testing"

func TestDocExamples(t *testing.T) {
	lv := func(levels ...int) *precInfo {
		info := &precInfo{levels: map[int]bool{}, classes: map[string]bool{"a:doc-example": true}}
		for _, l := range levels {
			info.levels[l] = true
		}
		return info
	}
	// (a) "Unary operators have the highest precedence, and, ternary operator
	// has the lowest precedence. There are five precedence levels ..."
	checkPrecedence(t, "TestPrecedence", precPayload{Ctx: "define",
		Src:  "x := 1 + 2 * 3 << 1 == 7 && !false || a ? -b : c",
		Want: "(? (|| (&& (== (+ 1 (<< (* 2 3) 1)) 7) (u! false)) a) (u- b) c)"}, lv(0, 1, 2, 3, 4, 5, 6))
	checkPrecedence(t, "TestPrecedence", precPayload{Ctx: "return",
		Src:  "g := func() { return a < b ? a : b ? c | d &^ e : f }",
		Want: "(? (< a b) a (? b (| c (&^ d e)) f))"}, lv(0, 3, 4, 5))
	checkPrecedence(t, "TestPrecedence", precPayload{Ctx: "stmt", Src: "-9.22 + 1e10", Want: "(+ (u- 9.22) 1e10)"}, lv(4, 6))

	// (b) the multi-line map literal of "Selector and Indexer", and a loop
	// written on several lines
	checkASI(t, "TestSemicolonNewlineVsSemi", asiPayload{Mode: "closer", Prev: "}",
		A: "m := { a: 1, b: [2, 3, 4], c: func() { return 10 } }",
		B: "m := {\n  a: 1,\n  b: [2, 3, 4],\n  c: func() { return 10 }\n}"}, &asiInfo{nlOther: 3})
	checkASI(t, "TestSemicolonEquivalence", asiPayload{Mode: "equiv",
		A:    "a := 0 ; for a < 10 { a++ ; if a == 5 { break } else { continue } } ; b := a",
		B:    "a := 0 // define\nfor a <\n 10 {\n a++\n if a == 5 {\n  break\n } else {\n  continue }\n}\nb := a\n",
		Want: "(file (assign := a 0) (for _ (< a 10) _ (block (incdec ++ a) (if _ (== a 5) (block (break)) (block (continue))))) (assign := b a))"},
		&asiInfo{layout: layoutStats{nlAfterTerm: 6, nlAfterNonTerm: 4, comments: 1}, prog: &progInfo{classes: map[string]bool{"doc-example": true}}})
	checkASI(t, "TestSemicolonNewlineVsSemi", asiPayload{Mode: "nlsemi", Prev: "return",
		A: "f := func(a) { return\n a + 1 }", B: "f := func(a) { return ; a + 1 }"}, &asiInfo{nlOther: 0})

	// (d) the closure and loop examples of the tutorial as one program
	checkRoundTrip(t, "TestPrintReparse", rtPayload{Src: `math := import("math")
adder := func(base) {
  return func(x) { return base + x }  // capturing 'base'
}
add5 := adder(5)
variadic := func (a, b, ...c) { return [a, b, c] }
m := { a: 1, b: [2, 3, 4], c: func() { return 10 } }
for i, v in [1, 2, 3] {
  if a := add5(v); a < 0 { m.x = math.abs(-19.84) } else if a == 0 { continue } else { m["b"][1] += variadic(1, [2, 3]...)[0] }
}
for a := 0; a < 10; a++ { m.a-- }
err1 := error("oops"); b := immutable([1, 2, 3])[1:]
`}, "generated", &progInfo{funcs: 4, controls: 4, classes: map[string]bool{"doc-example": true}})

	// (c) literals of "Values and Value Types"
	for _, s := range []string{"19", "-9", "1e10", "12.34", "'九'", "`kawa`", `"aomame"`, "0x1p-2"} {
		if s[0] == '-' {
			continue // a sign is the unary operator, not part of the literal
		}
		checkLiteral(t, "TestLiterals", s, "doc-example")
	}
}
