package c20

// Compact generator of well-scoped tengo programs (every variable is defined
// before it is used, every ':=' introduces a fresh name, break/continue only
// inside a loop of the same function, return only inside a function), shared
// by the semicolon-insertion generator (b) and the print/reparse generator
// (d). A generated program must compile; one that does not is a generator bug
// that shows up as a discard class in the evidence.

import (
	"fmt"

	"pgregory.net/rapid"

	"verifharness/ev"
)

type progInfo struct {
	funcs    int
	controls int
	stmts    int
	classes  map[string]bool
}

type pgen struct {
	t      *rapid.T
	scopes [][]string
	nvar   int
	loop   int
	fn     int
	budget int
	info   *progInfo
}

func (g *pgen) mark(c string) { g.info.classes[c] = true }

func (g *pgen) fresh(prefix string) string {
	g.nvar++
	return fmt.Sprintf("%s%d", prefix, g.nvar)
}

func (g *pgen) visible() []string {
	var out []string
	for _, s := range g.scopes {
		out = append(out, s...)
	}
	return out
}

func (g *pgen) define(name string) {
	g.scopes[len(g.scopes)-1] = append(g.scopes[len(g.scopes)-1], name)
}

func (g *pgen) push(names ...string) { g.scopes = append(g.scopes, append([]string(nil), names...)) }
func (g *pgen) pop()                 { g.scopes = g.scopes[:len(g.scopes)-1] }

func (g *pgen) pickVar() string {
	v := g.visible()
	if len(v) == 0 {
		return ""
	}
	// prefer recent variables a little
	if len(v) > 3 && rapid.Bool().Draw(g.t, "recent") {
		v = v[len(v)-3:]
	}
	return rapid.SampledFrom(v).Draw(g.t, "var")
}

var progInts = []string{"0", "1", "7", "42", "0x1F", "0b101", "0o17", "017", "1_000", "9223372036854775807", "0XfF"}
var progFloats = []string{"1.5", ".5", "2.", "1e3", "2.5e-3", "0x1p4", "0x1.8p1", "1_0.2_5", "0.0"}
var progStrings = []string{`"s"`, `""`, `"a\tb\n"`, `"é\x41\101"`, "`raw\\n`", "`multi\nline`", `"日本"`, `"it's"`, `"q\"q"`}
var progChars = []string{`'c'`, `'\n'`, `'\''`, `'日'`, `'\x41'`, `'é'`, `'"'`}
var progBuiltins = []string{"len", "string", "int", "append", "format", "is_error", "type_name", "copy", "float", "is_undefined"}
var compoundOps = []string{"+=", "-=", "*=", "/=", "%=", "&=", "|=", "^=", "<<=", ">>=", "&^="}
var progSels = []string{"a", "b", "value", "e5", "x1", "_k"}
var progKeys = []string{"a", "b", "k1", "_k", `"a"`, `"q9"`, "value", "x1"}
var progModules = []string{"math", "text", "times", "rand", "fmt", "json", "base64", "hex", "enum", "os"}

func atomOf(s string) *expr { return &expr{k: kAtom, text: s} }

func (g *pgen) literal() *expr {
	switch rapid.IntRange(0, 9).Draw(g.t, "lit") {
	case 0, 1, 2:
		return atomOf(rapid.SampledFrom(progInts).Draw(g.t, "int"))
	case 3, 4:
		return atomOf(rapid.SampledFrom(progFloats).Draw(g.t, "float"))
	case 5, 6:
		return atomOf(rapid.SampledFrom(progStrings).Draw(g.t, "str"))
	case 7:
		return atomOf(rapid.SampledFrom(progChars).Draw(g.t, "chr"))
	default:
		return atomOf(rapid.SampledFrom([]string{"true", "false", "undefined"}).Draw(g.t, "kw"))
	}
}

func (g *pgen) leaf() *expr {
	if rapid.IntRange(0, 2).Draw(g.t, "leafvar") > 0 {
		if v := g.pickVar(); v != "" {
			return atomOf(v)
		}
	}
	return g.literal()
}

func isIntSpelling(s string) bool {
	if !isNumberTok(s) || s[0] == '.' {
		return false
	}
	hex := len(s) > 1 && s[0] == '0' && (s[1] == 'x' || s[1] == 'X')
	for i := 0; i < len(s); i++ {
		c := s[i]
		if c == '.' || c == 'p' || c == 'P' {
			return false
		}
		if !hex && (c == 'e' || c == 'E') {
			return false
		}
	}
	return true
}

// selectorOnIntLiteral is the input pattern of open finding F-C20-1: a
// selector applied directly (no parentheses) to an integer literal whose
// spelling lets the scanner continue into a fraction (decimal, legacy octal,
// hexadecimal).
func selectorOnIntLiteral(base *expr) bool {
	if base.k != kAtom || base.parens > 0 || !isIntSpelling(base.text) {
		return false
	}
	if len(base.text) > 1 && base.text[0] == '0' {
		switch base.text[1] {
		case 'b', 'B', 'o', 'O':
			return false
		}
	}
	return true
}

func (g *pgen) expr(depth int) *expr {
	if depth <= 0 {
		return g.leaf()
	}
	switch k := rapid.IntRange(0, 99).Draw(g.t, "ek"); {
	case k < 22:
		return g.leaf()
	case k < 40:
		op := rapid.SampledFrom(binOps).Draw(g.t, "binop")
		return &expr{k: kBin, op: op, kids: []*expr{g.expr(depth - 1), g.expr(depth - 1)}}
	case k < 48:
		op := rapid.SampledFrom(unOps).Draw(g.t, "unop")
		x := g.expr(depth - 1)
		if rapid.IntRange(0, 2).Draw(g.t, "unun") == 0 {
			// unary directly on unary: "- -x" must not be printed as "--x"
			op2 := op
			if rapid.Bool().Draw(g.t, "other") {
				op2 = rapid.SampledFrom(unOps).Draw(g.t, "unop2")
			}
			x = &expr{k: kUn, op: op2, kids: []*expr{x}}
			g.mark("unary-on-unary")
		}
		g.mark("unary")
		return &expr{k: kUn, op: op, kids: []*expr{x}}
	case k < 55:
		g.mark("ternary")
		return &expr{k: kCond, kids: []*expr{g.expr(depth - 1), g.expr(depth - 1), g.expr(depth - 1)}}
	case k < 67:
		return g.call(depth)
	case k < 72:
		g.mark("index")
		return &expr{k: kIndex, kids: []*expr{g.expr(depth - 1), g.expr(depth - 1)}}
	case k < 76:
		g.mark("slice")
		s := &expr{k: kSlice, kids: []*expr{g.expr(depth - 1), nil, nil}}
		if rapid.Bool().Draw(g.t, "lo") {
			s.kids[1] = g.expr(depth - 1)
		}
		if rapid.Bool().Draw(g.t, "hi") {
			s.kids[2] = g.expr(depth - 1)
		}
		return s
	case k < 82:
		base := g.expr(depth - 1)
		if selectorOnIntLiteral(base) {
			if openFindings["F-C20-1"] {
				ev.Discard("known:F-C20-1 selector on an integer literal (generated around with parentheses)")
				base.parens = 1
			} else {
				g.mark("selector-on-int-literal")
			}
		}
		g.mark("selector")
		return &expr{k: kSel, kids: []*expr{base}, text: rapid.SampledFrom(progSels).Draw(g.t, "sel")}
	case k < 86:
		g.mark("array-literal")
		n := rapid.IntRange(0, 3).Draw(g.t, "nel")
		a := &expr{k: kArray}
		for i := 0; i < n; i++ {
			a.kids = append(a.kids, g.expr(depth-1))
		}
		return a
	case k < 90:
		g.mark("map-literal")
		n := rapid.IntRange(0, 3).Draw(g.t, "nel")
		m := &expr{k: kMap}
		for i := 0; i < n; i++ {
			key := rapid.SampledFrom(progKeys).Draw(g.t, "key")
			if key[0] == '"' {
				g.mark("quoted-identifier-key")
			}
			m.keys = append(m.keys, key)
			m.kids = append(m.kids, g.expr(depth-1))
		}
		return m
	case k < 94:
		return g.funcLit(depth)
	case k < 96:
		g.mark("error-expr")
		return &expr{k: kError, kids: []*expr{g.expr(depth - 1)}}
	case k < 98:
		g.mark("immutable-expr")
		return &expr{k: kImmutable, kids: []*expr{g.expr(depth - 1)}}
	default:
		g.mark("import")
		return &expr{k: kImport, text: rapid.SampledFrom(progModules).Draw(g.t, "mod")}
	}
}

func (g *pgen) call(depth int) *expr {
	var callee *expr
	switch rapid.IntRange(0, 5).Draw(g.t, "callee") {
	case 0, 1:
		callee = atomOf(rapid.SampledFrom(progBuiltins).Draw(g.t, "builtin"))
	case 2:
		if v := g.pickVar(); v != "" {
			callee = &expr{k: kSel, kids: []*expr{atomOf(v)}, text: rapid.SampledFrom(progSels).Draw(g.t, "sel")}
			break
		}
		fallthrough
	case 3:
		if v := g.pickVar(); v != "" {
			callee = atomOf(v)
			break
		}
		fallthrough
	case 4:
		callee = g.funcLit(depth)
		g.mark("call-of-func-literal")
	default:
		callee = g.expr(depth - 1)
	}
	c := &expr{k: kCall, kids: []*expr{callee}}
	n := rapid.IntRange(0, 3).Draw(g.t, "nargs")
	for i := 0; i < n; i++ {
		c.kids = append(c.kids, g.expr(depth-1))
	}
	if n > 0 && rapid.IntRange(0, 2).Draw(g.t, "spread") == 0 {
		c.spread = true
		g.mark("call-spread")
		if last := c.kids[n]; selectorOnIntLiteral(last) {
			// `f(1...)`: same printer defect as the selector case
			if openFindings["F-C20-1"] {
				ev.Discard("known:F-C20-1 spread of an integer literal (generated around with parentheses)")
				last.parens = 1
			} else {
				g.mark("spread-of-int-literal")
			}
		}
	}
	g.mark("call")
	return c
}

func (g *pgen) funcLit(depth int) *expr {
	f := &expr{k: kFunc}
	n := rapid.IntRange(0, 3).Draw(g.t, "nparams")
	for i := 0; i < n; i++ {
		f.params = append(f.params, g.fresh("p"))
	}
	if n > 0 && rapid.IntRange(0, 2).Draw(g.t, "varargs") == 0 {
		f.varargs = true
		g.mark("varargs")
	}
	saveLoop := g.loop
	g.loop = 0
	g.fn++
	g.push(f.params...)
	f.body = g.stmtList(depth-1, rapid.IntRange(0, 3).Draw(g.t, "nbody"))
	g.pop()
	g.fn--
	g.loop = saveLoop
	g.info.funcs++
	g.mark("func-literal")
	return f
}

func (g *pgen) stmtList(depth, n int) []*stmt {
	var list []*stmt
	for i := 0; i < n && g.budget > 0; i++ {
		g.budget--
		list = append(list, g.stmt(depth))
	}
	return list
}

func (g *pgen) block(depth int, names ...string) []*stmt {
	g.push(names...)
	defer g.pop()
	return g.stmtList(depth, rapid.IntRange(0, 3).Draw(g.t, "nblock"))
}

func (g *pgen) lhs(depth int, v string) *expr {
	e := atomOf(v)
	n := rapid.IntRange(0, 2).Draw(g.t, "nsel")
	for i := 0; i < n; i++ {
		if rapid.Bool().Draw(g.t, "dot") {
			e = &expr{k: kSel, kids: []*expr{e}, text: rapid.SampledFrom(progSels).Draw(g.t, "sel")}
		} else {
			e = &expr{k: kIndex, kids: []*expr{e, g.expr(depth - 1)}}
		}
	}
	if n > 0 {
		g.mark("selector-assignment")
	}
	return e
}

func (g *pgen) defineStmt(depth int) *stmt {
	var rhs *expr
	if rapid.IntRange(0, 3).Draw(g.t, "deffunc") == 0 {
		rhs = g.funcLit(depth)
	} else {
		rhs = g.expr(depth)
	}
	name := g.fresh("v")
	g.define(name) // visible only after its own right-hand side was generated
	return &stmt{k: "assign", op: ":=", x: atomOf(name), y: rhs}
}

func (g *pgen) simpleAssign(depth int) *stmt {
	v := g.pickVar()
	if v == "" {
		return g.defineStmt(depth)
	}
	switch rapid.IntRange(0, 3).Draw(g.t, "asg") {
	case 0:
		g.mark("incdec")
		return &stmt{k: "incdec", op: rapid.SampledFrom([]string{"++", "--"}).Draw(g.t, "incdec"), x: g.lhs(depth, v)}
	case 1:
		g.mark("compound-assignment")
		return &stmt{k: "assign", op: rapid.SampledFrom(compoundOps).Draw(g.t, "cop"), x: g.lhs(depth, v), y: g.expr(depth)}
	default:
		return &stmt{k: "assign", op: "=", x: g.lhs(depth, v), y: g.expr(depth)}
	}
}

func (g *pgen) ifStmt(depth int) *stmt {
	g.info.controls++
	g.mark("if")
	g.push()
	defer g.pop()
	s := &stmt{k: "if"}
	if rapid.IntRange(0, 3).Draw(g.t, "ifinit") == 0 {
		g.mark("if-init")
		if rapid.Bool().Draw(g.t, "initdef") {
			s.init = g.defineStmt(depth - 1)
		} else {
			s.init = g.simpleAssign(depth - 1)
		}
	}
	s.x = g.expr(depth - 1)
	s.body = g.block(depth - 1)
	switch rapid.IntRange(0, 5).Draw(g.t, "else") {
	case 0, 1:
		g.mark("else")
		s.els = &stmt{k: "block", body: g.block(depth - 1)}
	case 2:
		if depth > 1 {
			g.mark("else-if")
			s.els = g.ifStmt(depth - 1)
		}
	}
	return s
}

func (g *pgen) forStmt(depth int) *stmt {
	g.info.controls++
	g.push()
	defer g.pop()
	s := &stmt{k: "for"}
	switch k := rapid.IntRange(0, 9).Draw(g.t, "forkind"); {
	case k == 0:
		g.mark("for-bare")
	case k < 4:
		g.mark("for-cond")
		s.x = g.expr(depth - 1)
	default:
		g.mark("for-3-clause")
		s.op = "3"
		if rapid.IntRange(0, 3).Draw(g.t, "hasinit") > 0 {
			s.init = g.defineStmt(depth - 1)
		}
		if rapid.IntRange(0, 3).Draw(g.t, "hascond") > 0 {
			s.x = g.expr(depth - 1)
		}
		if rapid.IntRange(0, 3).Draw(g.t, "haspost") > 0 && len(g.visible()) > 0 {
			if rapid.Bool().Draw(g.t, "postincdec") {
				g.mark("incdec")
				g.mark("for-post-incdec")
				s.post = &stmt{k: "incdec", op: rapid.SampledFrom([]string{"++", "--"}).Draw(g.t, "incdec"), x: g.lhs(depth-1, g.pickVar())}
			} else {
				s.post = g.simpleAssign(depth - 1)
				if s.post.op == ":=" {
					s.post = nil
				}
			}
		}
	}
	if s.op == "3" && s.init == nil && s.post == nil && s.x != nil && firstToken(s.x) == "{" {
		// `for ; {}.a ; {}` is printed as `for {}.a {}` (open finding F-C20-2)
		if openFindings["F-C20-2"] {
			ev.Discard("known:F-C20-2 three-clause for with only a condition that starts with '{' (generated around with parentheses)")
			s.x.parens++
		} else {
			g.mark("for-cond-only-starting-with-brace")
		}
	}
	g.loop++
	s.body = g.block(depth - 1)
	g.loop--
	return s
}

func firstToken(e *expr) string {
	tmp := &stream{}
	tmp.expr(e, precCond)
	return tmp.toks[0].s
}

func (g *pgen) forInStmt(depth int) *stmt {
	g.info.controls++
	s := &stmt{k: "forin"}
	s.x = g.expr(depth - 1) // the iterable does not see the loop variables
	var names []string
	if rapid.Bool().Draw(g.t, "twovars") {
		g.mark("for-in-2")
		s.key = g.fresh("k")
		if rapid.IntRange(0, 4).Draw(g.t, "blankkey") == 0 {
			s.key = "_"
		} else {
			names = append(names, s.key)
		}
	} else {
		g.mark("for-in-1")
	}
	s.val = g.fresh("e")
	if rapid.IntRange(0, 5).Draw(g.t, "blankval") == 0 {
		s.val = "_"
	} else {
		names = append(names, s.val)
	}
	g.loop++
	s.body = g.block(depth-1, names...)
	g.loop--
	return s
}

func (g *pgen) stmt(depth int) *stmt {
	g.info.stmts++
	k := rapid.IntRange(0, 99).Draw(g.t, "sk")
	switch {
	case k < 26:
		return g.defineStmt(depth)
	case k < 44:
		return g.simpleAssign(depth)
	case k < 54:
		g.mark("expression-statement")
		if rapid.Bool().Draw(g.t, "callstmt") {
			return &stmt{k: "expr", x: g.call(depth)}
		}
		return &stmt{k: "expr", x: g.expr(depth)}
	case k < 66 && depth > 0:
		return g.ifStmt(depth)
	case k < 75 && depth > 0:
		return g.forStmt(depth)
	case k < 82 && depth > 0:
		return g.forInStmt(depth)
	case k < 88 && g.fn > 0:
		g.mark("return")
		if rapid.IntRange(0, 3).Draw(g.t, "retval") == 0 {
			return &stmt{k: "return"}
		}
		return &stmt{k: "return", x: g.expr(depth)}
	case k < 93 && g.loop > 0:
		if rapid.Bool().Draw(g.t, "brk") {
			g.mark("break")
			return &stmt{k: "break"}
		}
		g.mark("continue")
		return &stmt{k: "continue"}
	case k < 95 && g.fn == 0:
		g.mark("export")
		return &stmt{k: "export", x: g.expr(depth)}
	case k < 97:
		g.mark("empty-statement")
		return &stmt{k: "empty"}
	}
	return g.defineStmt(depth)
}

func drawProgram(t *rapid.T) ([]*stmt, *progInfo) {
	info := &progInfo{classes: map[string]bool{}}
	g := &pgen{t: t, info: info, budget: rapid.IntRange(4, 24).Draw(t, "budget")}
	g.push()
	depth := rapid.IntRange(1, 3).Draw(t, "depth")
	n := rapid.IntRange(1, 7).Draw(t, "ntop")
	list := g.stmtList(depth, n)
	return list, info
}

// programStream prints a program into a token stream; the trailer gap after
// the last token is chosen by the caller.
func programStream(list []*stmt) *stream {
	st := &stream{}
	st.stmts(list)
	return st
}

func lastIsEmpty(list []*stmt) bool { return len(list) > 0 && list[len(list)-1].k == "empty" }
