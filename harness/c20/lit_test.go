package c20

// (c) literals.
//
// Oracle: Go's own front end. go/scanner must see exactly one literal token of
// kind INT/FLOAT/CHAR/STRING covering the whole spelling without reporting an
// error, and go/constant.MakeFromLiteral gives its value. tengo accepts the
// spelling as a literal  <=>  Go accepts it and the value fits int64/float64
// (property: "number, char and string literals denote the values Go's literal
// syntax gives them"; docs/tutorial.md: int = int64, float = float64, char =
// rune); the parsed IntLit/FloatLit/CharLit/StringLit.Value must equal Go's
// value (floats bit for bit). Go's imaginary literals (suffix i) do not exist
// in tengo (docs/tutorial.md "Differences from Go": no imaginary values): they
// are generated around and counted as discards.
//
// "tengo accepts" = tengo's scanner sees one literal token covering the whole
// spelling AND the parser returns a file whose only statement is that literal.

import (
	"encoding/hex"
	"fmt"
	"go/constant"
	goscanner "go/scanner"
	gotoken "go/token"
	"math"
	"strconv"
	"strings"
	"testing"
	"unicode/utf8"

	"github.com/d5/tengo/v2/parser"
	"github.com/d5/tengo/v2/token"
	"pgregory.net/rapid"

	"verifharness/ev"
)

type litPayload struct {
	Hex  string `json:"hex"`
	Text string `json:"text"` // echo, for the reader
}

func (p litPayload) spelling() string {
	b, _ := hex.DecodeString(p.Hex)
	return string(b)
}

func litPayloadOf(sp string) litPayload {
	return litPayload{Hex: hex.EncodeToString([]byte(sp)), Text: strconv.QuoteToASCII(sp)}
}

func strconvUnquote(s string) (string, error) { return strconv.Unquote(s) }

type goLit struct {
	single bool // one token covering the whole spelling
	tok    gotoken.Token
	lit    string
	errs   []string
	ntok   int
}

func goScan(sp string) (g goLit) {
	fset := gotoken.NewFileSet()
	file := fset.AddFile("", fset.Base(), len(sp))
	var s goscanner.Scanner
	// ScanComments: a comment after the literal must show up as a token of
	// its own (the spelling is then not one literal)
	s.Init(file, []byte(sp), func(_ gotoken.Position, msg string) { g.errs = append(g.errs, msg) }, goscanner.ScanComments)
	pos, tok, lit := s.Scan()
	g.tok, g.lit = tok, lit
	if tok == gotoken.EOF {
		return
	}
	g.ntok = 1
	pos2, tok2, lit2 := s.Scan()
	if tok2 == gotoken.SEMICOLON && lit2 == "\n" && file.Offset(pos2) == len(sp) && file.Offset(pos) == 0 {
		if _, tok3, _ := s.Scan(); tok3 == gotoken.EOF && covers(lit, sp) {
			g.single = true
			return
		}
	}
	g.ntok = 2
	return
}

// covers: the token text is the whole spelling (raw string tokens come with
// their carriage returns removed, in Go and in tengo).
func covers(lit, sp string) bool {
	if lit == sp {
		return true
	}
	return sp != "" && sp[0] == '`' && strings.ReplaceAll(sp, "\r", "") == lit
}

type tengoLit struct {
	single  bool // scanner: one literal token covering the whole spelling, no scanner error
	tok     token.Token
	parsed  bool // parser: a file whose only statement is that literal
	node    parser.Expr
	literal string
	err     error
}

func tengoScan(sp string) (r tengoLit, pan interface{}) {
	defer func() {
		if x := recover(); x != nil {
			pan = x
		}
	}()
	fs := parser.NewFileSet()
	sf := fs.AddFile("lit", -1, len(sp))
	nerr := 0
	sc := parser.NewScanner(sf, []byte(sp), func(parser.SourceFilePos, string) { nerr++ }, 0)
	tok, lit, pos := sc.Scan()
	r.tok = tok
	switch tok {
	case token.Int, token.Float, token.Char, token.String:
		tok2, lit2, pos2 := sc.Scan()
		if int(pos)-sf.Base == 0 && tok2 == token.Semicolon && lit2 == "\n" && int(pos2)-sf.Base == len(sp) {
			if tok3, _, _ := sc.Scan(); tok3 == token.EOF && nerr == 0 && covers(lit, sp) {
				r.single = true
				r.literal = lit
			}
		}
	}
	f, err, pan2 := parseSrc(sp)
	if pan2 != nil {
		return r, pan2
	}
	r.err = err
	if err == nil && len(f.Stmts) == 1 {
		if es, ok := f.Stmts[0].(*parser.ExprStmt); ok {
			switch es.Expr.(type) {
			case *parser.IntLit, *parser.FloatLit, *parser.CharLit, *parser.StringLit:
				r.parsed = true
				r.node = es.Expr
			}
		}
	}
	return r, nil
}

func litClasses(sp string, g goLit) []string {
	var cls []string
	if sp == "" {
		return cls
	}
	switch c := sp[0]; {
	case c == '"':
		cls = append(cls, "c:string")
	case c == '`':
		cls = append(cls, "c:raw-string")
		if strings.Contains(sp, "\r") {
			cls = append(cls, "c:raw-string-with-CR")
		}
		if strings.Contains(sp, "\n") {
			cls = append(cls, "c:raw-string-with-newline")
		}
	case c == '\'':
		cls = append(cls, "c:char")
	case isDigitByte(c) || c == '.':
		low := strings.ToLower(sp)
		switch {
		case strings.HasPrefix(low, "0x"):
			cls = append(cls, "c:prefix-0x")
			if strings.ContainsAny(low, "p.") {
				cls = append(cls, "c:hex-float")
			}
		case strings.HasPrefix(low, "0b"):
			cls = append(cls, "c:prefix-0b")
		case strings.HasPrefix(low, "0o"):
			cls = append(cls, "c:prefix-0o")
		case len(sp) > 1 && sp[0] == '0' && (isDigitByte(sp[1]) || sp[1] == '_'):
			cls = append(cls, "c:leading-zero(legacy-octal)")
		}
		if strings.Contains(sp, "_") {
			cls = append(cls, "c:underscore")
		}
		if strings.HasSuffix(sp, ".") {
			cls = append(cls, "c:trailing-dot")
		}
		if sp[0] == '.' {
			cls = append(cls, "c:leading-dot")
		}
		if !strings.HasPrefix(low, "0x") && strings.Contains(low, "e") {
			cls = append(cls, "c:decimal-exponent")
		}
	}
	if strings.Contains(sp, `\`) && sp[0] != '`' {
		for _, e := range []string{`\x`, `\u`, `\U`, `\0`, `\1`, `\2`, `\3`, `\7`, `\n`, `\'`, `\"`, `\\`, `\a`} {
			if strings.Contains(sp, e) {
				cls = append(cls, "c:escape "+e)
			}
		}
	}
	if !utf8.ValidString(sp) {
		cls = append(cls, "c:invalid-utf8-bytes")
	}
	if g.ntok >= 2 {
		cls = append(cls, "c:go-sees-several-tokens")
	}
	return cls
}

func checkLiteral(t ev.TB, test string, sp string, origin string) {
	p := litPayloadOf(sp)
	g := goScan(sp)
	if g.tok == gotoken.IMAG {
		ev.Discard("c: imaginary literal (Go only)")
		return
	}
	tl, pan := tengoScan(sp)
	if pan != nil {
		ev.Fail(t, test, p, "tengo panicked on literal spelling %s: %v", p.Text, pan)
		return
	}
	accepted := tl.single && tl.parsed

	// what Go says
	var want struct {
		ok    bool
		why   string
		kind  string
		i     int64
		f     float64
		s     string
		canon string
	}
	goKind := ""
	switch g.tok {
	case gotoken.INT:
		goKind = "int"
	case gotoken.FLOAT:
		goKind = "float"
	case gotoken.CHAR:
		goKind = "char"
	case gotoken.STRING:
		goKind = "string"
	}
	switch {
	case goKind == "":
		want.why = "Go does not scan a literal (" + g.tok.String() + ")"
	case !g.single:
		want.why = "Go does not scan one token covering the spelling"
	case len(g.errs) > 0:
		want.why = "Go: " + g.errs[0]
	default:
		v := constant.MakeFromLiteral(g.lit, g.tok, 0)
		if v.Kind() == constant.Unknown {
			// go/scanner accepted the syntax but go/constant cannot evaluate
			// it (an exponent beyond big.Float's range, e.g. 0e1111111111):
			// the reference has no value to offer, the case is outside what
			// this oracle can decide
			ev.Discard("c: go/constant cannot evaluate a literal go/scanner accepts (huge exponent)")
			return
		}
		want.kind = goKind
		switch goKind {
		case "int":
			n, exact := constant.Int64Val(v)
			if !exact {
				want.why = "value does not fit int64"
				break
			}
			want.ok, want.i, want.canon = true, n, strconv.FormatInt(n, 10)
		case "float":
			f, _ := constant.Float64Val(v)
			if math.IsInf(f, 0) {
				want.why = "value does not fit float64"
				break
			}
			want.ok, want.f, want.canon = true, f, strconv.FormatFloat(f, 'g', -1, 64)
		case "char":
			n, exact := constant.Int64Val(v)
			if !exact {
				want.why = "char value not an int64"
				break
			}
			want.ok, want.i, want.canon = true, n, strconv.QuoteRune(rune(n))
		case "string":
			want.ok, want.s = true, constant.StringVal(v)
			want.canon = strconv.Quote(want.s)
		}
	}

	cls := append([]string{"c:literal", "c:origin-" + origin}, litClasses(sp, g)...)
	if !want.ok {
		if accepted {
			ev.Fail(t, test, p, "tengo accepts the spelling %s as a %T but Go's literal syntax does not: %s", p.Text, tl.node, want.why)
			return
		}
		cls = append(cls, "c:rejected-by-both")
		if strings.Contains(want.why, "does not fit") {
			cls = append(cls, "c:out-of-range")
		}
		if len(g.errs) > 0 {
			n := 3
			if strings.HasPrefix(g.errs[0], "illegal character") || strings.HasPrefix(g.errs[0], "invalid digit") {
				n = 2
			}
			cls = append(cls, "c:go-error "+firstWords(g.errs[0], n))
		}
		ev.Case("c"+sp, true, cls...)
		return
	}
	if !accepted {
		ev.Fail(t, test, p, "tengo rejects the spelling %s, a valid Go %s literal whose value fits (one-token=%v parse error: %v)", p.Text, want.kind, tl.single, tl.err)
		return
	}
	if tl.literal != g.lit {
		ev.Fail(t, test, p, "token text of %s: tengo %q, Go %q", p.Text, tl.literal, g.lit)
		return
	}
	switch n := tl.node.(type) {
	case *parser.IntLit:
		if want.kind != "int" || n.Value != want.i {
			ev.Fail(t, test, p, "spelling %s: tengo IntLit %d, Go %s %s", p.Text, n.Value, want.kind, want.canon)
			return
		}
	case *parser.FloatLit:
		if want.kind != "float" || math.Float64bits(n.Value) != math.Float64bits(want.f) {
			ev.Fail(t, test, p, "spelling %s: tengo FloatLit %v (%#x), Go %s %s (%#x)", p.Text, n.Value, math.Float64bits(n.Value), want.kind, want.canon, math.Float64bits(want.f))
			return
		}
	case *parser.CharLit:
		if want.kind != "char" || int64(n.Value) != want.i {
			ev.Fail(t, test, p, "spelling %s: tengo CharLit %d, Go %s %s", p.Text, n.Value, want.kind, want.canon)
			return
		}
	case *parser.StringLit:
		if want.kind != "string" || n.Value != want.s {
			ev.Fail(t, test, p, "spelling %s: tengo StringLit %q, Go %s %s", p.Text, n.Value, want.kind, want.canon)
			return
		}
	}
	nontrivial := sp != want.canon
	cls = append(cls, "c:accepted-"+want.kind)
	if want.kind == "float" && want.f == 0 && strings.ContainsAny(sp, "123456789") {
		cls = append(cls, "c:float-underflow-to-zero")
	}
	if want.kind == "float" && want.f != 0 && math.Abs(want.f) < 2.3e-308 {
		cls = append(cls, "c:float-subnormal")
	}
	ev.Case("c"+sp, nontrivial, cls...)
	if nontrivial && ev.WantSample() && len(sp) >= 4 && len(sp) < 40 {
		ev.Sample(map[string]string{"kind": "literal", "spelling": p.Text, "go_kind": want.kind, "value": want.canon})
	}
}

// ---------- generators ----------

const hexDigits = "0123456789abcdefABCDEF"

func genDigits(t *rapid.T, alphabet string, min, max int) string {
	n := rapid.IntRange(min, max).Draw(t, "nd")
	var sb strings.Builder
	for i := 0; i < n; i++ {
		sb.WriteByte(alphabet[rapid.IntRange(0, len(alphabet)-1).Draw(t, "d")])
	}
	return sb.String()
}

// withUnderscores inserts '_' between digits (legal) and, rarely, in illegal
// places (leading, trailing, doubled).
func withUnderscores(t *rapid.T, digits string) string {
	switch rapid.IntRange(0, 9).Draw(t, "us") {
	case 0, 1, 2:
		if len(digits) < 2 {
			return digits
		}
		var sb strings.Builder
		for i := 0; i < len(digits); i++ {
			if i > 0 && rapid.IntRange(0, 2).Draw(t, "u") == 0 {
				sb.WriteByte('_')
			}
			sb.WriteByte(digits[i])
		}
		return sb.String()
	case 3:
		switch rapid.IntRange(0, 3).Draw(t, "bad") {
		case 0:
			return digits + "_"
		case 1:
			return "_" + digits
		case 2:
			if len(digits) >= 2 {
				return digits[:1] + "__" + digits[1:]
			}
			return digits + "_"
		default:
			return digits
		}
	}
	return digits
}

var intBoundaries = []string{
	"9223372036854775807", "9223372036854775808", "9223372036854775806", "18446744073709551615", "18446744073709551616",
	"0x7fffffffffffffff", "0x8000000000000000", "0xffffffffffffffff", "0x10000000000000000", "0X7FFF_FFFF_FFFF_FFFF",
	"0b111111111111111111111111111111111111111111111111111111111111111",
	"0b1000000000000000000000000000000000000000000000000000000000000000",
	"0o777777777777777777777", "0o1000000000000000000000", "0777777777777777777777", "01000000000000000000000",
	"0", "00", "0_0", "007", "08", "09", "0_7", "0_8", "1_000", "1__0", "1_", "0x", "0b", "0o", "0x_1", "0_x1", "0b_1", "0o_7",
	"0b102", "0o78", "0xg", "0B1", "0O7", "0X1", "099", "0129", "100000000000000000000",
}

func genInt(t *rapid.T) string {
	switch rapid.IntRange(0, 9).Draw(t, "ik") {
	case 0:
		return rapid.SampledFrom(intBoundaries).Draw(t, "ib")
	case 1, 2:
		n := rapid.Uint64().Draw(t, "iv") >> uint(rapid.IntRange(0, 63).Draw(t, "sh"))
		return withUnderscores(t, strconv.FormatUint(n, 10))
	case 3, 4:
		p := rapid.SampledFrom([]string{"0x", "0X"}).Draw(t, "px")
		d := withUnderscores(t, genDigits(t, hexDigits, 0, 17))
		if rapid.IntRange(0, 5).Draw(t, "pu") == 0 {
			d = "_" + d
		}
		return p + d
	case 5:
		p := rapid.SampledFrom([]string{"0b", "0B"}).Draw(t, "pb")
		alphabet := "01"
		if rapid.IntRange(0, 7).Draw(t, "bad") == 0 {
			alphabet = "012"
		}
		return p + withUnderscores(t, genDigits(t, alphabet, 0, 66))
	case 6:
		p := rapid.SampledFrom([]string{"0o", "0O"}).Draw(t, "po")
		alphabet := "01234567"
		if rapid.IntRange(0, 7).Draw(t, "bad") == 0 {
			alphabet = "0123456789"
		}
		return p + withUnderscores(t, genDigits(t, alphabet, 0, 23))
	case 7:
		alphabet := "01234567"
		if rapid.IntRange(0, 5).Draw(t, "bad") == 0 {
			alphabet = "0123456789"
		}
		return "0" + withUnderscores(t, genDigits(t, alphabet, 1, 23))
	default:
		return withUnderscores(t, genDigits(t, "0123456789", 1, 21))
	}
}

var decExps = []string{"0", "1", "5", "05", "10", "22", "23", "100", "307", "308", "309", "310", "323", "324", "325", "400", "1_0", "_1", "1_", ""}
var hexExps = []string{"0", "1", "4", "10", "52", "53", "1022", "1023", "1024", "1074", "1075", "1100", "2000", "1_0", "_1", ""}

var floatBoundaries = []string{
	"1.7976931348623157e308", "1.7976931348623158e308", "1.7976931348623159e308", "1.8e308", "1e309", "4.9e-324", "5e-324", "2.4e-324", "2.5e-324", "2.4703282292062327e-324", "2.4703282292062328e-324", "1e-400",
	"0x1p1023", "0x1p1024", "0x1.fffffffffffffp1023", "0x1.fffffffffffff8p1023", "0x1.fffffffffffff7p1023", "0x1p-1074", "0x1p-1075", "0x1.000001p-1075", "0x1p-1100",
	"9007199254740993.0", "9007199254740992.5", "0.1", "1e23", "8.41e21", "2.2250738585072011e-308", "2.2250738585072014e-308",
	".5", "5.", "0.", ".0", "0e0", "0E-0", "1.e5", "1e+5", "1E5", "08.5", "0_8.5", "00.5", "09e1", "1p5", "0x1.8", "0x.8p1", "0x.p1", "0x1.p1", "0x1p", "1e", "1e+", "0b1.1", "0b1e1", "0o7e1", "0o7p1", "0x1e5", "0x1.e5p3",
	"1_.5", "1._5", "1.5_", "1e_5", "1_e5", "1.5e5_", "0x_1.8p0", "0x1_.8p0", "0x1._8p0", "1__0.5", "1_0.2_5e1_0",
}

func genFloat(t *rapid.T) string {
	switch rapid.IntRange(0, 9).Draw(t, "fk") {
	case 0, 1:
		return rapid.SampledFrom(floatBoundaries).Draw(t, "fb")
	case 2, 3, 4:
		// hexadecimal mantissa
		var sb strings.Builder
		sb.WriteString(rapid.SampledFrom([]string{"0x", "0X"}).Draw(t, "px"))
		sb.WriteString(withUnderscores(t, genDigits(t, hexDigits, 0, 15)))
		if rapid.IntRange(0, 3).Draw(t, "dot") > 0 {
			sb.WriteByte('.')
			sb.WriteString(withUnderscores(t, genDigits(t, hexDigits, 0, 15)))
		}
		if rapid.IntRange(0, 7).Draw(t, "hasp") > 0 {
			sb.WriteString(rapid.SampledFrom([]string{"p", "P"}).Draw(t, "p"))
			sb.WriteString(rapid.SampledFrom([]string{"", "+", "-"}).Draw(t, "sign"))
			sb.WriteString(rapid.SampledFrom(hexExps).Draw(t, "exp"))
		} else if rapid.Bool().Draw(t, "e-instead") {
			sb.WriteString("e1")
		}
		return sb.String()
	default:
		var sb strings.Builder
		ip := ""
		if rapid.IntRange(0, 5).Draw(t, "hasint") > 0 {
			ip = withUnderscores(t, genDigits(t, "0123456789", 1, 20))
		}
		sb.WriteString(ip)
		if rapid.IntRange(0, 3).Draw(t, "dot") > 0 || ip == "" {
			sb.WriteByte('.')
			min := 0
			if ip == "" {
				min = 1
			}
			sb.WriteString(withUnderscores(t, genDigits(t, "0123456789", min, 20)))
		}
		if rapid.IntRange(0, 2).Draw(t, "hasexp") > 0 {
			sb.WriteString(rapid.SampledFrom([]string{"e", "E", "e", "p"}).Draw(t, "e"))
			sb.WriteString(rapid.SampledFrom([]string{"", "+", "-"}).Draw(t, "sign"))
			sb.WriteString(rapid.SampledFrom(decExps).Draw(t, "exp"))
		}
		return sb.String()
	}
}

var simpleEscapes = []string{`\a`, `\b`, `\f`, `\n`, `\r`, `\t`, `\v`, `\\`, `\'`, `\"`}
var badEscapes = []string{`\e`, `\z`, `\ `, `\8`, `\9`, `\x`, `\xg0`, `\x1`, `\u12`, `\u12g4`, `\U0001F60`, `\7`, `\07`, `\400`, `\777`, `\378`,
	`\ud800`, `\udfff`, `\uDBFF`, `\U0000d800`, `\U00110000`, `\UFFFFFFFF`, `\`, `\x1g`, `\X41`, `\N`}
var multiByte = []string{"\u00e9", "\u65e5", "\U0001f600", "\u00a0", "\u2028", "\ufeff", "\ufffd", "\u07ff", "\uffff", "\U0010ffff"}
var rawBad = []string{"\xff", "\xc3", "\xe2\x82", "\xed\xa0\x80", "\xc0\xaf", "\xf4\x90\x80\x80", "\x00"}

func genEscape(t *rapid.T) string {
	switch rapid.IntRange(0, 7).Draw(t, "esc") {
	case 0, 1:
		return rapid.SampledFrom(simpleEscapes).Draw(t, "simple")
	case 2:
		return `\` + genDigits(t, "01234567", 3, 3)
	case 3:
		return `\x` + genDigits(t, hexDigits, 2, 2)
	case 4:
		return `\u` + genDigits(t, hexDigits, 4, 4)
	case 5:
		return rapid.SampledFrom([]string{`\U0000`, `\U0001`, `\U0010`, `\U0011`, `\U000e`}).Draw(t, "U") + genDigits(t, hexDigits, 4, 4)
	case 6:
		return rapid.SampledFrom([]string{`\ud7ff`, `\ud800`, `\udbff`, `\udc00`, `\udfff`, `\ue000`, `\U0010FFFF`, `\U00110000`, `\377`, `\400`, `\000`, `\x00`, `\xff`, `\u0000`}).Draw(t, "edge")
	default:
		return rapid.SampledFrom(badEscapes).Draw(t, "bad")
	}
}

func genPiece(t *rapid.T, quote byte) string {
	switch rapid.IntRange(0, 11).Draw(t, "pk") {
	case 0, 1, 2:
		return string(rune(rapid.IntRange(0x20, 0x7e).Draw(t, "ascii")))
	case 3, 4:
		return rapid.SampledFrom(multiByte).Draw(t, "mb")
	case 5, 6, 7, 8:
		return genEscape(t)
	case 9:
		return rapid.SampledFrom(rawBad).Draw(t, "rawbad")
	case 10:
		return rapid.SampledFrom([]string{"\n", "\r", "\t", "'", `"`, "`", `\`}).Draw(t, "special")
	default:
		return string(rune(rapid.IntRange(0x80, 0x10ffff).Draw(t, "rune")))
	}
}

func genChar(t *rapid.T) string {
	n := 1
	switch rapid.IntRange(0, 9).Draw(t, "cn") {
	case 0:
		n = 0
	case 1:
		n = 2
	}
	var sb strings.Builder
	sb.WriteByte('\'')
	for i := 0; i < n; i++ {
		sb.WriteString(genPiece(t, '\''))
	}
	if rapid.IntRange(0, 19).Draw(t, "unterminated") != 0 {
		sb.WriteByte('\'')
	}
	return sb.String()
}

func genString(t *rapid.T) string {
	n := rapid.IntRange(0, 6).Draw(t, "sn")
	var sb strings.Builder
	sb.WriteByte('"')
	for i := 0; i < n; i++ {
		sb.WriteString(genPiece(t, '"'))
	}
	if rapid.IntRange(0, 19).Draw(t, "unterminated") != 0 {
		sb.WriteByte('"')
	}
	return sb.String()
}

func genRawString(t *rapid.T) string {
	n := rapid.IntRange(0, 8).Draw(t, "rn")
	var sb strings.Builder
	sb.WriteByte('`')
	for i := 0; i < n; i++ {
		switch rapid.IntRange(0, 7).Draw(t, "rk") {
		case 0:
			sb.WriteString("\r")
		case 1:
			sb.WriteString("\n")
		case 2:
			sb.WriteString("\r\n")
		case 3:
			sb.WriteString(rapid.SampledFrom([]string{`\n`, `\`, `"`, "'", `\x41`, "\t", "\xff", "\x00", "\ufeff"}).Draw(t, "rs"))
		case 4:
			sb.WriteString(rapid.SampledFrom(multiByte).Draw(t, "mb"))
		default:
			sb.WriteByte(byte(rapid.IntRange(0x20, 0x7e).Draw(t, "ascii")))
		}
	}
	s := strings.ReplaceAll(sb.String()[1:], "`", "'")
	if rapid.IntRange(0, 19).Draw(t, "unterminated") != 0 {
		return "`" + s + "`"
	}
	return "`" + s
}

const litAlphabet = "0123456789abcdefxXoObB_.eEpP+-i'\"`\\ux"

func mutateSpelling(t *rapid.T, s string) string {
	if s == "" {
		return s
	}
	b := []byte(s)
	pos := rapid.IntRange(0, len(b)-1).Draw(t, "pos")
	c := litAlphabet[rapid.IntRange(0, len(litAlphabet)-1).Draw(t, "c")]
	switch rapid.IntRange(0, 2).Draw(t, "mk") {
	case 0:
		return string(b[:pos]) + string(b[pos+1:])
	case 1:
		return string(b[:pos]) + string(c) + string(b[pos:])
	default:
		b[pos] = c
		return string(b)
	}
}

func drawSpelling(t *rapid.T) (string, string) {
	var s, origin string
	switch rapid.IntRange(0, 9).Draw(t, "lk") {
	case 0, 1, 2:
		s, origin = genInt(t), "int-grammar"
	case 3, 4, 5:
		s, origin = genFloat(t), "float-grammar"
	case 6:
		s, origin = genChar(t), "char-grammar"
	case 7, 8:
		s, origin = genString(t), "string-grammar"
	default:
		s, origin = genRawString(t), "rawstring-grammar"
	}
	switch rapid.IntRange(0, 19).Draw(t, "post") {
	case 0:
		s += "i" // Go's imaginary suffix: generated around (discard)
	case 1, 2:
		s = mutateSpelling(t, s)
		origin += "-mutated"
	}
	return s, origin
}

func TestLiterals(t *testing.T) {
	rapid.Check(t, func(t *rapid.T) {
		s, origin := drawSpelling(t)
		if s == "" {
			ev.Discard("c: empty spelling")
			return
		}
		checkLiteral(t, "TestLiterals", s, origin)
	})
}

// TestLiteralTable: every boundary spelling of the tables above, once, in
// every run (plain test).
func TestLiteralTable(t *testing.T) {
	for _, s := range intBoundaries {
		checkLiteral(t, "TestLiterals", s, "table")
	}
	for _, s := range floatBoundaries {
		checkLiteral(t, "TestLiterals", s, "table")
	}
	for _, e := range append(append([]string{}, simpleEscapes...), badEscapes...) {
		checkLiteral(t, "TestLiterals", "'"+e+"'", "table")
		checkLiteral(t, "TestLiterals", `"`+e+`"`, "table")
		checkLiteral(t, "TestLiterals", `"a`+e+`b"`, "table")
	}
	for _, s := range []string{"''", "'ab'", "'a", "'\n'", "'''", `'\''`, `'"'`, "\"\n\"", "\"a", "`a", "`a\r\nb\r`", "`\r`", "``", `""`,
		"'\xff'", "\"\xff\"", "`\xff`", "'\x00'", "\"\x00\"", "'\ufeff'", "\"\ufeff\"", "'\u00e9'", "'\U0001f600'", "'\u2028'"} {
		checkLiteral(t, "TestLiterals", s, "table")
	}
}

// FuzzLiteral: native fuzzing of the literal oracle (thorough tier).
func FuzzLiteral(f *testing.F) {
	for _, s := range []string{"0x1p-2", "1_000", "0b101", "0o17", "017", "1e309", ".5", "5.", "'\u00e9'", `"a\tb"`, "`r\r`", "0x1.8p1",
		"9223372036854775808", `'\''`, `"\xff"`, "1__0", "0x_1", "1e+5", `'\U0001F600'`, `"\400"`} {
		f.Add([]byte(s))
	}
	f.Fuzz(func(t *testing.T, b []byte) {
		if len(b) == 0 || len(b) > 80 {
			return
		}
		switch c := b[0]; {
		case isDigitByte(c), c == '.', c == '"', c == '\'', c == '`':
		default:
			return
		}
		checkLiteral(t, "FuzzLiteral", string(b), "fuzz")
	})
}

var _ = fmt.Sprintf
