package c20

// (a) precedence / associativity.
//
// Random expression trees over all 19 binary operators, the 4 unary operators,
// the ternary (nested in all three positions) and postfix chains are printed
// by the harness printer with the minimal parentheses the documented table
// requires (docs/tutorial.md "Operator Precedences": unary > five binary
// levels > ternary; binary operators group left to right; the ternary groups
// right to left and its condition is a binary-level expression), plus random
// redundant parentheses, white space and comments. tengo's parse tree, read by
// a type switch that skips ParenExpr, must have the shape of the generated tree.

import (
	"fmt"
	"testing"

	"github.com/d5/tengo/v2/parser"
	"pgregory.net/rapid"

	"verifharness/ev"
)

type precPayload struct {
	Src  string `json:"src"`  // complete source text
	Ctx  string `json:"ctx"`  // where the expression sits (see precContexts)
	Want string `json:"want"` // S-expression of the generated tree
}

type precInfo struct {
	levels  map[int]bool
	classes map[string]bool
	layout  layoutStats
}

type precCtx struct {
	name, pre, post string
	get             func(f *parser.File) parser.Expr
}

var precContexts = []precCtx{
	{"stmt", "", "", func(f *parser.File) parser.Expr {
		return f.Stmts[0].(*parser.ExprStmt).Expr
	}},
	{"define", "x := ", "", func(f *parser.File) parser.Expr {
		return f.Stmts[0].(*parser.AssignStmt).RHS[0]
	}},
	{"arg", "f(", ", 1)", func(f *parser.File) parser.Expr {
		return f.Stmts[0].(*parser.ExprStmt).Expr.(*parser.CallExpr).Args[0]
	}},
	{"elem", "x = [0, ", "]", func(f *parser.File) parser.Expr {
		return f.Stmts[0].(*parser.AssignStmt).RHS[0].(*parser.ArrayLit).Elements[1]
	}},
	{"if", "if ", " { y = 1 }", func(f *parser.File) parser.Expr {
		return f.Stmts[0].(*parser.IfStmt).Cond
	}},
	{"return", "g := func() { return ", " }", func(f *parser.File) parser.Expr {
		return f.Stmts[0].(*parser.AssignStmt).RHS[0].(*parser.FuncLit).Body.Stmts[0].(*parser.ReturnStmt).Result
	}},
	{"index", "x[", "] += 1", func(f *parser.File) parser.Expr {
		return f.Stmts[0].(*parser.AssignStmt).LHS[0].(*parser.IndexExpr).Index
	}},
	{"compound", "x <<= ", "", func(f *parser.File) parser.Expr {
		return f.Stmts[0].(*parser.AssignStmt).RHS[0]
	}},
}

func extractCtx(ctx string, f *parser.File) (e parser.Expr, problem string) {
	defer func() {
		if r := recover(); r != nil {
			problem = fmt.Sprintf("statement has not the shape of context %q: %v", ctx, r)
		}
	}()
	for _, c := range precContexts {
		if c.name == ctx {
			if len(f.Stmts) != 1 {
				return nil, fmt.Sprintf("%d statements instead of 1", len(f.Stmts))
			}
			return c.get(f), ""
		}
	}
	return nil, "unknown context " + ctx
}

func checkPrecedence(t ev.TB, test string, p precPayload, info *precInfo) {
	f, err, pan := parseSrc(p.Src)
	if pan != nil {
		ev.Fail(t, test, p, "parser panicked on %q: %v", p.Src, pan)
		return
	}
	if err != nil {
		ev.Fail(t, test, p, "expression printed with the parentheses the documented table requires does not parse: %q: %v (tree %s)", p.Src, err, clip(p.Want))
		return
	}
	e, problem := extractCtx(p.Ctx, f)
	if problem != "" {
		ev.Fail(t, test, p, "%q: %s; tengo's tree: %s", p.Src, problem, clip(fileSexpr(f)))
		return
	}
	got := exprSexpr(e)
	if got != p.Want {
		ev.Fail(t, test, p, "grouping differs from the documented precedence/associativity:\n source: %q\n want:   %s\n tengo:  %s", p.Src, clip(p.Want), clip(got))
		return
	}
	cls := []string{"a:precedence", "a:ctx-" + p.Ctx}
	nontrivial := false
	if info != nil {
		nontrivial = len(info.levels) >= 3 || info.classes["a:cond-in-cond"] ||
			info.classes["a:cond-in-true"] || info.classes["a:cond-in-false"]
		for c := range info.classes {
			cls = append(cls, c)
		}
		if len(info.levels) >= 3 {
			cls = append(cls, "a:levels>=3")
		}
		if len(info.levels) >= 5 {
			cls = append(cls, "a:levels>=5")
		}
		if info.layout.comments > 0 {
			cls = append(cls, "a:with-comments")
		}
		if info.layout.nlAfterNonTerm > 0 {
			cls = append(cls, "a:newline-after-operator")
		}
	}
	ev.Case("a"+p.Src, nontrivial, cls...)
	if nontrivial && ev.WantSample() && len(p.Src) < 160 && len(p.Src) > 30 {
		ev.Sample(map[string]string{"kind": "precedence", "source": p.Src, "tree": p.Want})
	}
}

// ---------- generator ----------

type precGen struct {
	t    *rapid.T
	info *precInfo
}

var precAtoms = []string{"a", "b", "c", "d", "x", "y", "a", "b", "1", "2", "0x1F", "1.5", ".5", "2.",
	`"s"`, "'c'", "`r`", "true", "false", "undefined", "1e3", "017"}

func (g *precGen) atom() *expr {
	return &expr{k: kAtom, text: rapid.SampledFrom(precAtoms).Draw(g.t, "atom")}
}

func (g *precGen) mark(c string) { g.info.classes[c] = true }

func (g *precGen) gen(depth int) *expr {
	if depth <= 0 {
		return g.atom()
	}
	var e *expr
	switch k := rapid.IntRange(0, 99).Draw(g.t, "kind"); {
	case k < 40:
		op := rapid.SampledFrom(binOps).Draw(g.t, "binop")
		l, r := g.gen(depth-1), g.gen(depth-1)
		e = &expr{k: kBin, op: op, kids: []*expr{l, r}}
		p := binLevels[op]
		g.info.levels[p] = true
		g.mark("a:binop " + op)
		for i, kid := range e.kids {
			side := []string{"left", "right"}[i]
			switch kid.k {
			case kBin:
				switch q := binLevels[kid.op]; {
				case q == p:
					g.mark("a:same-level-on-" + side)
				case q < p:
					g.mark("a:looser-operand(needs-parens)")
				default:
					g.mark("a:tighter-operand")
				}
			case kCond:
				g.mark("a:cond-under-binary")
			case kUn:
				g.mark("a:unary-under-binary")
			}
		}
	case k < 52:
		op := rapid.SampledFrom(unOps).Draw(g.t, "unop")
		x := g.gen(depth - 1)
		e = &expr{k: kUn, op: op, kids: []*expr{x}}
		g.info.levels[precUnary] = true
		g.mark("a:unop " + op)
		switch x.k {
		case kBin:
			g.mark("a:binary-under-unary(needs-parens)")
		case kCond:
			g.mark("a:cond-under-unary(needs-parens)")
		case kUn:
			g.mark("a:unary-under-unary")
			if x.parens == 0 && x.op == op && (op == "-" || op == "+") {
				g.mark("a:unary-token-merge-hazard")
			}
		case kCall, kIndex, kSlice, kSel:
			g.mark("a:postfix-under-unary")
		}
	case k < 66:
		c, a, b := g.gen(depth-1), g.gen(depth-1), g.gen(depth-1)
		e = &expr{k: kCond, kids: []*expr{c, a, b}}
		g.info.levels[precCond] = true
		g.mark("a:cond")
		if c.k == kCond {
			g.mark("a:cond-in-cond")
		}
		if a.k == kCond {
			g.mark("a:cond-in-true")
		}
		if b.k == kCond {
			g.mark("a:cond-in-false")
		}
		if c.k == kBin {
			g.mark("a:binary-as-condition")
		}
	case k < 80:
		e = g.postfix(g.gen(depth-1), depth)
	case k < 88:
		e = g.composite(depth)
	default:
		e = g.atom()
	}
	switch rapid.IntRange(0, 11).Draw(g.t, "parens") {
	case 0:
		e.parens = 1
		g.mark("a:redundant-parens")
	case 1:
		if rapid.Bool().Draw(g.t, "double") {
			e.parens = 2
			g.mark("a:redundant-parens")
		}
	}
	return e
}

var selNames = []string{"k", "foo", "e5", "x", "_f"}

func (g *precGen) postfix(base *expr, depth int) *expr {
	e := base
	switch base.k {
	case kBin, kUn, kCond:
		if base.parens == 0 {
			g.mark("a:postfix-on-operator-expr(needs-parens)")
		}
	}
	n := rapid.IntRange(1, 3).Draw(g.t, "npost")
	for i := 0; i < n; i++ {
		switch rapid.IntRange(0, 3).Draw(g.t, "post") {
		case 0:
			na := rapid.IntRange(0, 2).Draw(g.t, "nargs")
			c := &expr{k: kCall, kids: []*expr{e}}
			for j := 0; j < na; j++ {
				c.kids = append(c.kids, g.gen(depth-2))
			}
			if na > 0 && rapid.IntRange(0, 3).Draw(g.t, "spread") == 0 {
				c.spread = true
				g.mark("a:call-spread")
			}
			g.mark("a:call")
			e = c
		case 1:
			e = &expr{k: kIndex, kids: []*expr{e, g.gen(depth - 2)}}
			g.mark("a:index")
		case 2:
			s := &expr{k: kSlice, kids: []*expr{e, nil, nil}}
			if rapid.Bool().Draw(g.t, "lo") {
				s.kids[1] = g.gen(depth - 2)
			}
			if rapid.Bool().Draw(g.t, "hi") {
				s.kids[2] = g.gen(depth - 2)
			}
			g.mark("a:slice")
			e = s
		default:
			if e.k == kAtom && isNumberTok(e.text) {
				g.mark("a:selector-on-number")
			}
			e = &expr{k: kSel, kids: []*expr{e}, text: rapid.SampledFrom(selNames).Draw(g.t, "sel")}
			g.mark("a:selector")
		}
	}
	return e
}

func (g *precGen) composite(depth int) *expr {
	switch rapid.IntRange(0, 5).Draw(g.t, "comp") {
	case 0:
		n := rapid.IntRange(0, 3).Draw(g.t, "nel")
		a := &expr{k: kArray}
		for i := 0; i < n; i++ {
			a.kids = append(a.kids, g.gen(depth-2))
		}
		g.mark("a:array-literal")
		return a
	case 1:
		n := rapid.IntRange(0, 2).Draw(g.t, "nel")
		m := &expr{k: kMap}
		for i := 0; i < n; i++ {
			m.keys = append(m.keys, rapid.SampledFrom([]string{"k", "k2", `"q"`, "_z"}).Draw(g.t, "key"))
			m.kids = append(m.kids, g.gen(depth-2))
		}
		g.mark("a:map-literal")
		return m
	case 2:
		f := &expr{k: kFunc, params: []string{"p"}}
		if rapid.Bool().Draw(g.t, "va") {
			f.params = []string{"p", "q"}
			f.varargs = true
		}
		f.body = []*stmt{{k: "return", x: g.gen(depth - 2)}}
		g.mark("a:func-literal")
		return f
	case 3:
		g.mark("a:error-expr")
		return &expr{k: kError, kids: []*expr{g.gen(depth - 2)}}
	case 4:
		g.mark("a:immutable-expr")
		return &expr{k: kImmutable, kids: []*expr{g.gen(depth - 2)}}
	default:
		g.mark("a:import-expr")
		return &expr{k: kImport, text: "math"}
	}
}

func drawPrecCase(t *rapid.T) (precPayload, *precInfo) {
	info := &precInfo{levels: map[int]bool{}, classes: map[string]bool{}}
	g := &precGen{t: t, info: info}
	depth := rapid.IntRange(2, 5).Draw(t, "depth")
	e := g.gen(depth)
	ctx := precContexts[rapid.IntRange(0, len(precContexts)-1).Draw(t, "ctx")]
	st := &stream{}
	if ctx.name == "if" {
		st.headExpr(e) // a leading '{' would be read as the block of the if
	} else {
		st.expr(e, precCond)
	}
	mode := "free"
	if rapid.IntRange(0, 4).Draw(t, "canon") == 0 {
		mode = "canon"
	}
	text := render(st, mode, rapidChooser{t}, &info.layout)
	return precPayload{Src: ctx.pre + text + ctx.post, Ctx: ctx.name, Want: sexpr(e)}, info
}

func TestPrecedence(t *testing.T) {
	rapid.Check(t, func(t *rapid.T) {
		p, info := drawPrecCase(t)
		checkPrecedence(t, "TestPrecedence", p, info)
	})
}
