package c20

// (d) print -> reparse -> recompile.
//
// For a program whose map keys and module names are plain identifiers (all the
// printer can quote - the property's stated precondition): F =
// parser.File.String() must parse, and compiling the original text and F with
// fresh compilers must give identical FormatInstructions() for main and for
// every function constant, and Equals-identical non-function constants in the
// same order.

import (
	"fmt"
	"os"
	"path/filepath"
	"reflect"
	"regexp"
	"runtime"
	"strings"
	"testing"

	"github.com/d5/tengo/v2"
	"github.com/d5/tengo/v2/parser"
	"github.com/d5/tengo/v2/stdlib"
	"pgregory.net/rapid"

	"verifharness/ev"
)

type rtPayload struct {
	Src string `json:"src"`
}

var allModules = stdlib.GetModuleMap(stdlib.AllModuleNames()...)

func compileFile(f *parser.File, predefined ...string) (bc *tengo.Bytecode, err error, pan interface{}) {
	defer func() {
		if r := recover(); r != nil {
			pan = r
		}
	}()
	st := tengo.NewSymbolTable()
	for _, n := range predefined {
		st.Define(n)
	}
	c := tengo.NewCompiler(f.InputFile, st, nil, allModules, nil)
	if err = c.Compile(f); err != nil {
		return nil, err, nil
	}
	return c.Bytecode(), nil, nil
}

var identRE = regexp.MustCompile(`^[A-Za-z_][A-Za-z0-9_]*$`)

func plainIdent(s string) bool { return identRE.MatchString(s) && !keywords[s] }

// precondition walks tengo's tree and reports the first map key / module name
// that is not a plain identifier ("" if the program is inside the claim).
func precondition(f *parser.File) string {
	problem := ""
	var expr func(e parser.Expr)
	var stmt func(s parser.Stmt)
	expr = func(e parser.Expr) {
		if problem != "" || e == nil || reflect.ValueOf(e).IsNil() {
			return
		}
		switch x := e.(type) {
		case *parser.ParenExpr:
			expr(x.Expr)
		case *parser.UnaryExpr:
			expr(x.Expr)
		case *parser.BinaryExpr:
			expr(x.LHS)
			expr(x.RHS)
		case *parser.CondExpr:
			expr(x.Cond)
			expr(x.True)
			expr(x.False)
		case *parser.CallExpr:
			expr(x.Func)
			for _, a := range x.Args {
				expr(a)
			}
		case *parser.IndexExpr:
			expr(x.Expr)
			expr(x.Index)
		case *parser.SliceExpr:
			expr(x.Expr)
			expr(x.Low)
			expr(x.High)
		case *parser.SelectorExpr:
			expr(x.Expr)
		case *parser.ArrayLit:
			for _, a := range x.Elements {
				expr(a)
			}
		case *parser.MapLit:
			for _, a := range x.Elements {
				if !plainIdent(a.Key) {
					problem = fmt.Sprintf("map key %q is not a plain identifier", a.Key)
					return
				}
				expr(a.Value)
			}
		case *parser.FuncLit:
			stmt(x.Body)
		case *parser.ErrorExpr:
			expr(x.Expr)
		case *parser.ImmutableExpr:
			expr(x.Expr)
		case *parser.ImportExpr:
			if !plainIdent(x.ModuleName) {
				problem = fmt.Sprintf("module name %q is not a plain identifier", x.ModuleName)
			}
		}
	}
	stmt = func(s parser.Stmt) {
		if problem != "" || s == nil || reflect.ValueOf(s).IsNil() {
			return
		}
		switch x := s.(type) {
		case *parser.ExprStmt:
			expr(x.Expr)
		case *parser.AssignStmt:
			for _, e := range x.LHS {
				expr(e)
			}
			for _, e := range x.RHS {
				expr(e)
			}
		case *parser.IncDecStmt:
			expr(x.Expr)
		case *parser.ReturnStmt:
			expr(x.Result)
		case *parser.ExportStmt:
			expr(x.Result)
		case *parser.BlockStmt:
			for _, b := range x.Stmts {
				stmt(b)
			}
		case *parser.IfStmt:
			stmt(x.Init)
			expr(x.Cond)
			stmt(x.Body)
			stmt(x.Else)
		case *parser.ForStmt:
			stmt(x.Init)
			expr(x.Cond)
			stmt(x.Post)
			stmt(x.Body)
		case *parser.ForInStmt:
			expr(x.Iterable)
			stmt(x.Body)
		}
	}
	for _, s := range f.Stmts {
		stmt(s)
	}
	return problem
}

func constDiff(i int, a, b tengo.Object) string {
	fa, okA := a.(*tengo.CompiledFunction)
	fb, okB := b.(*tengo.CompiledFunction)
	if okA != okB {
		return fmt.Sprintf("constant %d: %s vs %s", i, a.TypeName(), b.TypeName())
	}
	if okA {
		if fa.NumParameters != fb.NumParameters || fa.VarArgs != fb.VarArgs || fa.NumLocals != fb.NumLocals {
			return fmt.Sprintf("constant %d: function header differs: params %d/%d varargs %v/%v locals %d/%d", i,
				fa.NumParameters, fb.NumParameters, fa.VarArgs, fb.VarArgs, fa.NumLocals, fb.NumLocals)
		}
		la := tengo.FormatInstructions(fa.Instructions, 0)
		lb := tengo.FormatInstructions(fb.Instructions, 0)
		if d := listingDiff(la, lb); d != "" {
			return fmt.Sprintf("function constant %d: %s", i, d)
		}
		return ""
	}
	if a.TypeName() != b.TypeName() {
		return fmt.Sprintf("constant %d: %s %s vs %s %s", i, a.TypeName(), a, b.TypeName(), b)
	}
	if a.Equals(b) {
		return ""
	}
	// builtin modules are immutable maps of Go functions, which never
	// compare Equal; two imports of the same builtin module are the same
	// constant when they carry the same module name and attribute set
	if ma, ok := a.(*tengo.ImmutableMap); ok {
		mb := b.(*tengo.ImmutableMap)
		if na, ok := ma.Value["__module_name__"]; ok {
			nb, ok2 := mb.Value["__module_name__"]
			if ok2 && na.Equals(nb) && len(ma.Value) == len(mb.Value) {
				for k := range ma.Value {
					if _, ok := mb.Value[k]; !ok {
						return fmt.Sprintf("constant %d: module attribute %s missing", i, k)
					}
				}
				return ""
			}
		}
	}
	return fmt.Sprintf("constant %d: %s %s does not Equal %s %s", i, a.TypeName(), a, b.TypeName(), b)
}

func listingDiff(a, b []string) string {
	n := len(a)
	if len(b) < n {
		n = len(b)
	}
	for i := 0; i < n; i++ {
		if a[i] != b[i] {
			return fmt.Sprintf("instruction %d: %q vs %q", i, a[i], b[i])
		}
	}
	if len(a) != len(b) {
		return fmt.Sprintf("%d vs %d instructions", len(a), len(b))
	}
	return ""
}

func firstWords(s string, n int) string {
	f := strings.Fields(s)
	if len(f) > n {
		f = f[:n]
	}
	return strings.Join(f, " ")
}

func checkRoundTrip(t ev.TB, test string, p rtPayload, origin string, info *progInfo) {
	generated := origin == "generated"
	var predefined []string
	if origin == "snippet" {
		predefined = []string{"out"}
	}
	f, err, pan := parseSrc(p.Src)
	if pan != nil {
		ev.Fail(t, test, p, "parser panicked on %q: %v", clip(p.Src), pan)
		return
	}
	if err != nil {
		if generated {
			ev.Fail(t, test, p, "generated program does not parse: %v\n text: %q", err, clip(p.Src))
			return
		}
		ev.Discard("d: " + origin + " text does not parse")
		return
	}
	if why := precondition(f); why != "" {
		ev.Discard("d: outside the claim: " + firstWords(why, 2) + " … not a plain identifier")
		return
	}
	bc1, err, pan := compileFile(f, predefined...)
	if pan != nil {
		ev.Discard("d: original does not compile (compiler panic; not this property)")
		return
	}
	if err != nil {
		msg := err.Error()
		if i := strings.Index(msg, "Compile Error: "); i >= 0 {
			msg = msg[i+len("Compile Error: "):]
		}
		ev.Discard("d: " + origin + " original does not compile: " + firstWords(msg, 2))
		return
	}
	printed := f.String()
	f2, err, pan := parseSrc(printed)
	if pan != nil {
		ev.Fail(t, test, p, "parser panicked on printed form %q: %v", clip(printed), pan)
		return
	}
	if err != nil {
		ev.Fail(t, test, p, "printed form does not parse: %v\n source:  %q\n printed: %q", firstLine(err.Error()), clip(p.Src), clip(printed))
		return
	}
	bc2, err, pan := compileFile(f2, predefined...)
	if pan != nil || err != nil {
		ev.Fail(t, test, p, "printed form does not compile: %v %v\n source:  %q\n printed: %q", err, pan, clip(p.Src), clip(printed))
		return
	}
	if d := listingDiff(bc1.FormatInstructions(), bc2.FormatInstructions()); d != "" {
		ev.Fail(t, test, p, "printed form compiles to different main instructions: %s\n source:  %q\n printed: %q", d, clip(p.Src), clip(printed))
		return
	}
	if len(bc1.Constants) != len(bc2.Constants) {
		ev.Fail(t, test, p, "printed form compiles to %d constants instead of %d\n source:  %q\n printed: %q", len(bc2.Constants), len(bc1.Constants), clip(p.Src), clip(printed))
		return
	}
	for i := range bc1.Constants {
		if d := constDiff(i, bc1.Constants[i], bc2.Constants[i]); d != "" {
			ev.Fail(t, test, p, "printed form compiles differently: %s\n source:  %q\n printed: %q", d, clip(p.Src), clip(printed))
			return
		}
	}
	cls := []string{"d:print-reparse", "d:origin-" + origin}
	nontrivial := false
	if info != nil {
		nontrivial = info.funcs >= 1 && info.controls >= 1
		for c := range info.classes {
			cls = append(cls, "d:prog "+c)
		}
		if nontrivial {
			cls = append(cls, "d:func-literal+control")
		}
	} else {
		nontrivial = strings.Contains(p.Src, "func") && (strings.Contains(p.Src, "if ") || strings.Contains(p.Src, "for "))
	}
	if printed != p.Src {
		cls = append(cls, "d:printed-differs-from-source")
	}
	ev.Case("d"+p.Src, nontrivial, cls...)
	if nontrivial && generated && ev.WantSample() && len(p.Src) < 700 && len(p.Src) > 40 {
		ev.Sample(map[string]string{"kind": "print-reparse", "source": p.Src, "printed": printed})
	}
}

func TestPrintReparse(t *testing.T) {
	rapid.Check(t, func(t *rapid.T) {
		list, info := drawProgram(t)
		st := programStream(list)
		mode := "free"
		if rapid.IntRange(0, 2).Draw(t, "canon") == 0 {
			mode = "canon"
		}
		src := render(st, mode, rapidChooser{t}, nil) + drawTrailer(t, list)
		checkRoundTrip(t, "TestPrintReparse", rtPayload{Src: src}, "generated", info)
	})
}

// repoDir is the directory of the tengo tree under test (honours VERIF_REPO
// because it is derived from where the linked package was compiled from).
func repoDir() string {
	fn := runtime.FuncForPC(reflect.ValueOf(tengo.NewCompiler).Pointer())
	if fn == nil {
		return "/repo"
	}
	file, _ := fn.FileLine(fn.Entry())
	return filepath.Dir(file)
}

var backtickRE = regexp.MustCompile("`[^`]*`")

// TestPrintReparseSnippets runs the same oracle over every back-quoted
// snippet of /repo/vm_test.go that parses, is inside the claim and compiles
// with `out` predefined and the standard library importable.
func TestPrintReparseSnippets(t *testing.T) {
	raw, err := os.ReadFile(filepath.Join(repoDir(), "vm_test.go"))
	if err != nil {
		ev.Note("vm_test.go not readable: snippets skipped")
		t.Skip(err)
	}
	seen := map[string]bool{}
	for _, m := range backtickRE.FindAllString(string(raw), -1) {
		src := m[1 : len(m)-1]
		if seen[src] || strings.TrimSpace(src) == "" {
			continue
		}
		seen[src] = true
		checkRoundTrip(t, "TestPrintReparseSnippets", rtPayload{Src: src}, "snippet", nil)
	}
}
