// Package cyc generates programs that build self-containing values (cycles
// through arrays, maps, immutable wrappers and error values) and then apply
// only operations that never reach String / Equals / Copy of a container -
// the sites of open finding F10. Used by C05 (nothing may take the host down)
// and C09 (what freeze returns is immutable all the way, cycles included).
package cyc

import (
	"fmt"
	"strings"

	"pgregory.net/rapid"
)

var cycLits = []string{`[1, 2]`, `{a: 1, b: 2}`, `[[1], {k: 2}]`, `{a: [1], b: {c: 2}}`, `[1]`}

// wrappers around the stored value: the cycle may pass through them
var cycWraps = []string{`%s`, `%s`, `[%s]`, `{k: %s}`, `immutable([%s])`, `immutable({k: %s})`, `error(%s)`, `[0, [%s]]`, `{a: {b: %s}}`}

// operations that tolerate a cyclic operand (X = a container variable, Y =
// another one, R = a fresh result name)
// cycAny applies to arrays and maps alike, cycArr / cycMap to one of them;
// cycEnd may (depending on the operand) fail at run time and is only used as
// the last operation
var cycAny = []string{
	`R := freeze(X)`,
	`R := freeze(X)`,
	`R := freeze([X, Y])`,
	`R := freeze({p: X, q: Y})`,
	`R := freeze(immutable(X))`,
	`R := freeze(error(X))`,
	`R := freeze(X); R2 := is_immutable_array(R) || is_immutable_map(R)`,
	`R := freeze(X); R2 := len(R)`,
	`R := freeze(X); R2 := 0; for k, v in R { R2++ }`,
	`R := freeze(X); R2 := freeze(R)`,
	`R := len(X)`,
	`R := type_name(X)`,
	`R := [is_array(X), is_map(X), is_iterable(X), is_immutable_array(X), is_immutable_map(X), is_error(X), is_undefined(X), is_callable(X)]`,
	`R := immutable(X)`,
	`R := 0; for k, v in X { R++ }`,
	`R := 0; for v in X { if is_iterable(v) { for w in v { R++ } } }`,
	`R := [X, Y]`,
	`R := {k: X, l: Y}`,
	`R := bool(X)`,
	`R := !X`,
	`R := X && 1`,
	`R := X || 2`,
	`R := X ? 1 : 2`,
	`R := error(X)`,
	`R := error(X).value`,
	`R := (func(x) { return x })(X)`,
	`R := (func(...xs) { return xs })(X, Y)`,
	`R := int(X)`,
	`R := float(X, 1.5)`,
	`R := char(X)`,
	`R := bytes(X)`,
	`R := X == 1`,
	`R := X != "s"`,
	`R := 1 == X`,
	`R := [len(X), len(Y)]`,
	`R := func() { return X }; R2 := R()`,
	`R := range(0, len(X))`,
	`R := X[0]`,
}

var cycArr = []string{
	`R := (func(...xs) { return len(xs) })(X...)`,
	`R := X[0][0]`,
	`R := X[:1]`,
	`R := X[1:]`,
	`R := splice(X, 1)`,
	`R := splice(X, 1, 0, Y)`,
	`R := append(X, 1)`,
	`R := append(X, Y)`,
	`R := X + [1]`,
	`R := X + [Y]`,
	`R := X[len(X)-1]`,
	`X[len(X)-1] = 5`,
}

var cycMap = []string{
	`R := X.a`,
	`R := X.k.k.k`,
	`R := X["self"]["self"]`,
	`delete(X, "b")`,
	`X.b = 5`,
	`X.z = Y`,
}

var cycEnd = []string{
	`R := X + 1`,
	`R := X.a.b.c.d`,
	`R := X[0][0][0][0][0][0]`,
	`delete(X, "a")`,
	`R := splice(X, 0, 1)`,
	`R := X[:1]`,
	`R := X(1)`,
	`R := -X`,
	`X[0] = 5; X.a = 5`,
}

// Source draws one program (see the package comment). Results of freeze() are
// named fz<i>, all other results r<i> / s<i>.
func Source(t *rapid.T) string { return source(t, false) }

// SourceReadOnly is Source without operations that write into a container
// after it was built (element / key assignment, delete, splice, append): no
// mutable alias of a frozen value's storage is written behind freeze's back.
func SourceReadOnly(t *rapid.T) string { return source(t, true) }

func mutates(op string) bool {
	for _, m := range []string{"delete(", "splice(", "append(", "] = ", ".a = ", ".b = ", ".z = ", "X = undefined"} {
		if strings.Contains(op, m) {
			return true
		}
	}
	return false
}

func source(t *rapid.T, readOnly bool) string {
	var sb strings.Builder
	n := rapid.IntRange(1, 4).Draw(t, "containers")
	isArr := make([]bool, n)
	for i := 0; i < n; i++ {
		lit := cycLits[rapid.IntRange(0, len(cycLits)-1).Draw(t, "lit")]
		isArr[i] = lit[0] == '['
		fmt.Fprintf(&sb, "c%d := %s\n", i, lit)
	}
	store := func(dst, src int) {
		val := fmt.Sprintf(cycWraps[rapid.IntRange(0, len(cycWraps)-1).Draw(t, "wrap")], fmt.Sprintf("c%d", src))
		if isArr[dst] {
			fmt.Fprintf(&sb, "c%d[0] = %s\n", dst, val)
		} else {
			key := []string{"a", "k", "self"}[rapid.IntRange(0, 2).Draw(t, "key")]
			if rapid.Bool().Draw(t, "indexForm") {
				fmt.Fprintf(&sb, "c%d[%q] = %s\n", dst, key, val)
			} else {
				fmt.Fprintf(&sb, "c%d.%s = %s\n", dst, key, val)
			}
		}
	}
	// a cycle of drawn length through c0 .. c(l-1)
	l := rapid.IntRange(1, n).Draw(t, "cycleLen")
	for i := 0; i < l; i++ {
		store(i, (i+1)%l)
	}
	for e := rapid.IntRange(0, 3).Draw(t, "extraEdges"); e > 0; e-- {
		store(rapid.IntRange(0, n-1).Draw(t, "dst"), rapid.IntRange(0, n-1).Draw(t, "src"))
	}
	ops := rapid.IntRange(2, 8).Draw(t, "ops")
	for i := 0; i < ops; i++ {
		xi := rapid.IntRange(0, n-1).Draw(t, "x")
		pool := cycAny
		switch k := rapid.IntRange(0, 9).Draw(t, "opPool"); {
		case i == ops-1 && k < 3:
			pool = cycEnd
		case k < 6:
		case isArr[xi]:
			pool = cycArr
		default:
			pool = cycMap
		}
		op := pool[rapid.IntRange(0, len(pool)-1).Draw(t, "op")]
		if readOnly && mutates(op) {
			op = cycAny[rapid.IntRange(0, 9).Draw(t, "freezeOp")] // the first ten are freeze shapes
		}
		x := fmt.Sprintf("c%d", xi)
		y := fmt.Sprintf("c%d", rapid.IntRange(0, n-1).Draw(t, "y"))
		rname := fmt.Sprintf("r%d", i)
		if strings.HasPrefix(op, "R := freeze(") {
			rname = fmt.Sprintf("fz%d", i)
		}
		op = strings.NewReplacer("R2", fmt.Sprintf("s%d", i), "R", rname, "X", x, "Y", y).Replace(op)
		if rapid.IntRange(0, 5).Draw(t, "inFunc") == 0 {
			// the same inside a function: locals and free variables instead of globals
			fmt.Fprintf(&sb, "func() { %s }()\n", strings.ReplaceAll(op, "; ", "\n"))
		} else {
			sb.WriteString(strings.ReplaceAll(op, "; ", "\n") + "\n")
		}
	}
	return sb.String()
}
