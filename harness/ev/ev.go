// Package ev collects per-run evidence (case counts, class histogram,
// distinct non-trivial cases, samples), records the last failing case as a
// replay file, and prints the lines the driver (/verif/check) understands.
//
// One process = one shard. The driver merges the shard files.
package ev

import (
	"encoding/binary"
	"encoding/json"
	"fmt"
	"hash/fnv"
	"os"
	"path/filepath"
	"sort"
	"strconv"
	"sync"
	"testing"
	"time"
)

const maxHashes = 250000 // per shard; distinct_nontrivial is clipped there
const maxSamples = 6

type failure struct {
	Property string      `json:"property"`
	Test     string      `json:"test"`
	Message  string      `json:"message"`
	Payload  interface{} `json:"payload"`
}

var (
	mu        sync.Mutex
	prop      string
	start     = time.Now()
	evals     int64
	nontriv   int64
	hashes    = map[uint64]struct{}{}
	clipped   bool
	classes   = map[string]int64{}
	discards  = map[string]int64{}
	samples   []interface{}
	lastFail  *failure
	failCount int64
	knownSeen = map[string]int64{}
	notes     = map[string]int64{}
)

// Hash returns the 64-bit FNV-1a hash of s.
func Hash(s string) uint64 {
	h := fnv.New64a()
	_, _ = h.Write([]byte(s))
	return h.Sum64()
}

// Case counts one evaluated case. key identifies the case for distinctness;
// nontrivial is the property's stated rule; classes feed the histogram.
func Case(key string, nontrivial bool, cls ...string) {
	mu.Lock()
	defer mu.Unlock()
	evals++
	for _, c := range cls {
		classes[c]++
	}
	if nontrivial {
		nontriv++
		if len(hashes) < maxHashes {
			hashes[Hash(key)] = struct{}{}
		} else {
			clipped = true
		}
	}
}

// Class bumps a histogram class without counting a case.
func Class(c string) {
	mu.Lock()
	classes[c]++
	mu.Unlock()
}

// ClassN adds n to a histogram class.
func ClassN(c string, n int64) {
	mu.Lock()
	classes[c] += n
	mu.Unlock()
}

// Discard counts a generated case that was excluded, with the reason.
func Discard(reason string) {
	mu.Lock()
	discards[reason]++
	mu.Unlock()
}

// Note counts an informational event (not a case).
func Note(n string) {
	mu.Lock()
	notes[n]++
	mu.Unlock()
}

// Sample keeps up to maxSamples sample cases verbatim.
func Sample(v interface{}) {
	mu.Lock()
	if len(samples) < maxSamples {
		samples = append(samples, v)
	}
	mu.Unlock()
}

// WantSample reports whether another sample would be kept.
func WantSample() bool {
	mu.Lock()
	defer mu.Unlock()
	return len(samples) < maxSamples
}

// Known reports an occurrence of a listed open finding.
func Known(id, what string) {
	mu.Lock()
	knownSeen[id+" "+what]++
	mu.Unlock()
}

// InFlight records the case about to be handed to the code under test, so
// that a fatal crash of the process (which no recover() can intercept) still
// leaves a replay behind. Active only when the driver sets VERIF_INFLIGHT.
func InFlight(test string, payload interface{}) {
	path := os.Getenv("VERIF_INFLIGHT")
	if path == "" {
		return
	}
	b, err := json.Marshal(&failure{Property: prop, Test: test, Message: "process died while this case was running", Payload: payload})
	if err == nil {
		_ = os.WriteFile(path, b, 0o644)
	}
}

// InFlightDone clears the in-flight record.
func InFlightDone() {
	if path := os.Getenv("VERIF_INFLIGHT"); path != "" {
		_ = os.Remove(path)
	}
}

// TB is the subset of testing.TB / *rapid.T that Fail needs.
type TB interface {
	Fatalf(format string, args ...interface{})
}

// Fail records the failing case (the last recorded one wins: rapid re-runs
// the shrunk minimal case last) and fails the test.
func Fail(t TB, test string, payload interface{}, format string, args ...interface{}) {
	msg := fmt.Sprintf(format, args...)
	mu.Lock()
	failCount++
	lastFail = &failure{Property: prop, Test: test, Message: msg, Payload: payload}
	mu.Unlock()
	t.Fatalf("%s", msg)
}

// FailNow records a failing case that cannot be continued past (a hang, a
// lost lock), writes the shard's evidence and replay, and exits the process.
func FailNow(test string, payload interface{}, msg string) {
	mu.Lock()
	failCount++
	lastFail = &failure{Property: prop, Test: test, Message: msg, Payload: payload}
	mu.Unlock()
	fmt.Println("--- FAIL:", test)
	fmt.Println(msg)
	InFlightDone()
	os.Exit(finish(1))
}

type shardEvidence struct {
	Property    string           `json:"property"`
	Evaluations int64            `json:"evaluations"`
	Nontrivial  int64            `json:"nontrivial"`
	Distinct    int              `json:"distinct_in_shard"`
	Clipped     bool             `json:"clipped"`
	Classes     map[string]int64 `json:"classes"`
	Discards    map[string]int64 `json:"discards"`
	Notes       map[string]int64 `json:"notes"`
	Known       map[string]int64 `json:"known"`
	Samples     []interface{}    `json:"samples"`
	WallS       float64          `json:"wall_s"`
	Failures    int64            `json:"failures"`
	Replay      string           `json:"replay,omitempty"`
	FailMessage string           `json:"fail_message,omitempty"`
}

// Main runs the tests of a property package and writes the shard evidence.
func Main(m *testing.M, property string) {
	prop = property
	code := m.Run()
	InFlightDone()
	os.Exit(finish(code))
}

func finish(code int) int {
	mu.Lock()
	defer mu.Unlock()
	se := shardEvidence{
		Property: prop, Evaluations: evals, Nontrivial: nontriv,
		Distinct: len(hashes), Clipped: clipped, Classes: classes,
		Discards: discards, Notes: notes, Known: knownSeen, Samples: samples,
		WallS: time.Since(start).Seconds(), Failures: failCount,
	}
	var keys []string
	for k := range knownSeen {
		keys = append(keys, k)
	}
	sort.Strings(keys)
	for _, k := range keys {
		fmt.Printf("KNOWN-FINDING: property=%s %s (seen %d)\n", prop, k, knownSeen[k])
	}
	if lastFail != nil && code != 0 {
		dir := os.Getenv("VERIF_REPLAY_DIR")
		if dir == "" {
			dir = filepath.Join(os.TempDir(), "verif-replays")
		}
		_ = os.MkdirAll(dir, 0o755)
		b, err := json.MarshalIndent(lastFail, "", " ")
		if err != nil {
			b, _ = json.Marshal(map[string]string{"property": prop,
				"test": lastFail.Test, "message": lastFail.Message,
				"marshal_error": err.Error()})
		}
		name := fmt.Sprintf("%s-%016x.json", lastFail.Test, Hash(string(b)))
		path := filepath.Join(dir, name)
		if err := os.WriteFile(path, b, 0o644); err == nil {
			se.Replay = path
		}
		se.FailMessage = lastFail.Message
		fmt.Printf("VIOLATION-CANDIDATE property=%s replay=%s\n", prop, path)
	}
	if out := os.Getenv("VERIF_EVID_OUT"); out != "" {
		b, _ := json.Marshal(se)
		_ = os.WriteFile(out, b, 0o644)
		hb := make([]byte, 0, 8*len(hashes))
		for h := range hashes {
			hb = binary.LittleEndian.AppendUint64(hb, h)
		}
		_ = os.WriteFile(out+".hashes", hb, 0o644)
	}
	return code
}

// Seed returns VERIF_SEED (0 when unset).
func Seed() int64 {
	n, _ := strconv.ParseInt(os.Getenv("VERIF_SEED"), 10, 64)
	return n
}

// Thorough reports whether the thorough tier is running.
func Thorough() bool { return os.Getenv("VERIF_TIER") == "thorough" }

// EnvInt reads an integer from the environment with a default.
func EnvInt(name string, def int) int {
	if s := os.Getenv(name); s != "" {
		if n, err := strconv.Atoi(s); err == nil {
			return n
		}
	}
	return def
}

// LoadReplay decodes the replay file named by VERIF_REPLAY into payload and
// returns the test name it belongs to ("" when no replay was requested).
func LoadReplay(path string, payload interface{}) (test string, err error) {
	b, err := os.ReadFile(path)
	if err != nil {
		return "", err
	}
	var raw struct {
		Test    string          `json:"test"`
		Payload json.RawMessage `json:"payload"`
	}
	if err := json.Unmarshal(b, &raw); err != nil {
		return "", err
	}
	if payload != nil {
		if err := json.Unmarshal(raw.Payload, payload); err != nil {
			return raw.Test, err
		}
	}
	return raw.Test, nil
}

// ReplayTest returns just the test name stored in a replay file.
func ReplayTest(path string) string {
	t, _ := LoadReplay(path, nil)
	return t
}
