package gen

import (
	"math"

	"verifharness/lang"
)

func (g *G) expr(want Ty, depth int) *lang.Node {
	e, _ := g.exprInfo(want, depth)
	return e
}

// exprInfo generates an expression aimed at run-time type want and returns
// the generator's knowledge about its value.
func (g *G) exprInfo(want Ty, depth int) (*lang.Node, *vinfo) {
	if depth < 0 {
		depth = 0
	}
	if want != TAny && g.risk(g.o.Risky, "risky") {
		g.feat("type-undirected-expr")
		want = TAny
	}
	if want == TAny {
		want = Ty(1 + g.weighted("anyTy", 16, 7, 12, 4, 7, 3, 10, 8, 3, 3, 3, 1, 2, 2))
		if want == TTime && g.o.NoTime {
			want = TInt
		}
	}
	info := &vinfo{t: want}
	var e *lang.Node
	if len(g.o.HostMods) > 0 && g.chance(60, "hostModAttr") {
		// attribute of a builtin (Go) module
		attr := map[Ty]string{TInt: "answer", TStr: "name", TFloat: "pi", TBool: "flag", TArr: "list", TMap: "conf"}[want]
		if attr != "" {
			g.feat("host-module-attr")
			if attr == "list" {
				info.elem, info.alen = TInt, 3
			}
			if attr == "conf" {
				info.keys = []string{"a", "b"}
			}
			return lang.Sel(lang.Import(g.o.HostMods[0]), attr), info
		}
		if want == TInt {
			g.feat("host-module-call")
			return lang.Call(lang.Sel(lang.Import(g.o.HostMods[0]), "count"), g.expr(TAny, 1), g.expr(TAny, 1)), info
		}
	}
	if g.chance(12, "errValue") {
		if v := g.pickVar("errValVar", func(v *vinfo) bool { return v.t == TErr }); v != nil {
			g.feat("error-value-selector")
			info.t = TAny
			return lang.Sel(lang.Ident(v.name), "value"), info
		}
	}
	if g.chance(10, "freezeVar") && g.builtinFree("freeze") {
		if v := g.pickVar("freezeVar", func(v *vinfo) bool { return v.t == TArr || v.t == TMap }); v != nil {
			g.feat("builtin:freeze")
			if v.t == TArr {
				info.t, info.elem, info.alen = TImmArr, v.elem, v.alen
			} else {
				info.t, info.keys = TImmMap, v.keys
			}
			return lang.Call(lang.Ident("freeze"), lang.Ident(v.name)), info
		}
	}
	if len(g.o.Modules) > 0 && g.chance(40, "srcModImport") {
		g.feat("source-module-import")
		info.t = TAny
		return lang.Import(g.o.Modules[g.draw(len(g.o.Modules), "whichMod")]), info
	}
	switch want {
	case TInt:
		e = g.intExpr(depth)
	case TFloat:
		e = g.floatExpr(depth)
	case TStr:
		e = g.strExpr(depth)
	case TChar:
		e = g.charExpr(depth)
	case TBool:
		e = g.boolExpr(depth)
	case TBytes:
		e = g.bytesExpr(depth)
	case TArr:
		e, info.elem = g.arrExpr(depth)
		if e.K == "array" {
			info.alen = len(e.Kids)
		} else if e.K == "ident" {
			if v := g.lookup(e.S); v != nil {
				info.alen = v.alen
			}
		}
	case TMap:
		e, info.keys = g.mapExpr(depth)
	case TFn:
		np := g.weighted("fnNp", 3, 5, 3)
		variadic := np > 0 && g.chance(150, "fnVar")
		info.arity, info.variadic = np, variadic
		if depth == 0 || g.fnDepth > 2 {
			if v := g.pickVar("fnVarPick", func(v *vinfo) bool { return v.t == TFn && !v.self }); v != nil {
				info.arity, info.variadic, info.ptys = v.arity, v.variadic, v.ptys
				return lang.Ident(v.name), info
			}
		}
		e = g.funcLit(np, variadic, info)
	case TErr:
		if v := g.pickVar("errVar", func(v *vinfo) bool { return v.t == TErr }); v != nil && g.chance(400, "useErrVar") {
			e = lang.Ident(v.name)
		} else {
			e = lang.ErrorE(g.expr(TAny, depth-1))
			g.feat("error-expr")
		}
	case TUndef:
		switch g.weighted("undefKind", 5, 2, 2) {
		case 0:
			e = lang.Undef()
		case 1:
			// missing map key / out-of-range index read as undefined
			if v := g.pickVar("undefArr", func(v *vinfo) bool { return v.t == TArr }); v != nil {
				e = lang.Index(lang.Ident(v.name), lang.Int(99))
			} else {
				e = lang.Undef()
			}
		default:
			e = lang.Sel(lang.Map(nil, nil), "nokey")
		}
	case TTime:
		if v := g.pickVar("timeVar", func(v *vinfo) bool { return v.t == TTime }); v != nil && g.chance(500, "useTimeVar") {
			e = lang.Ident(v.name)
			if g.chance(300, "timePlus") {
				e = lang.Binary("+", e, lang.Int(int64(g.draw(1000, "ns"))*1000000))
			}
		} else if g.builtinFree("time") {
			e = lang.Call(lang.Ident("time"), lang.Int(int64(1500000000+g.draw(100, "sec"))))
		} else {
			e = lang.Int(0)
			info.t = TInt
		}
	case TImmArr:
		inner, el := g.arrLit(depth - 1)
		info.elem = el
		info.alen = len(inner.Kids)
		if g.builtinFree("freeze") && g.chance(300, "freezeArr") {
			e = lang.Call(lang.Ident("freeze"), inner)
			g.feat("builtin:freeze")
		} else {
			e = lang.Immutable(inner)
			g.feat("immutable-expr")
		}
	case TImmMap:
		inner, keys := g.mapLit(depth - 1)
		info.keys = keys
		if g.builtinFree("freeze") && g.chance(300, "freezeMap") {
			e = lang.Call(lang.Ident("freeze"), inner)
			g.feat("builtin:freeze")
		} else {
			e = lang.Immutable(inner)
			g.feat("immutable-expr")
		}
	}
	// generic wrappers
	if depth > 0 {
		switch g.weighted("wrap", 90, 4, 3, 3) {
		case 1:
			g.feat("ternary")
			other := g.expr(want, depth-1)
			if g.chance(500, "ternSide") {
				e = lang.Cond(g.expr(TBool, depth-1), e, other)
			} else {
				e = lang.Cond(g.expr(TBool, depth-1), other, e)
			}
		case 2:
			g.feat("logical-operand")
			// a && b / a || b yield the deciding operand
			if g.chance(500, "andOr") {
				e = lang.Binary("||", e, g.expr(want, depth-1))
			} else {
				e = lang.Binary("&&", g.expr(want, depth-1), e)
			}
		case 3:
			// immediately invoked function literal
			if g.fnDepth < 2 && !(g.o.ScopeIndep && g.loopDepth > 0 && g.fnDepth == 0) {
				g.feat("iife")
				g.push(true)
				sl := g.loopDepth
				g.loopDepth = 0
				g.fnDepth++
				body := lang.Block(lang.Return(e))
				g.fnDepth--
				g.loopDepth = sl
				g.pop()
				e = lang.Call(lang.Func(nil, false, body))
			}
		}
	}
	return e, info
}

var intBoundaries = []int64{0, 1, 2, 3, 7, 8, 10, 16, 31, 32, 63, 64, 100, 255, 256, 1000, 65535, 1 << 31, 1<<31 - 1, 1 << 53,
	math.MaxInt64, math.MaxInt64 - 1, 1 << 62}

func (g *G) intLit() *lang.Node {
	if g.chance(850, "smallInt") {
		return lang.Int(int64(g.draw(12, "int")))
	}
	return lang.Int(intBoundaries[g.draw(len(intBoundaries), "intB")])
}

func (g *G) nonZeroInt() *lang.Node {
	if g.risk(80, "maybeZero") {
		return g.expr(TInt, 1)
	}
	n := lang.Int(int64(1 + g.draw(9, "nz")))
	if g.chance(200, "negDiv") {
		return lang.Unary("-", n)
	}
	return n
}

func (g *G) varOf(t Ty, label string) *lang.Node {
	if v := g.pickVar(label, func(v *vinfo) bool { return v.t == t && !v.self }); v != nil {
		return lang.Ident(v.name)
	}
	return nil
}

func (g *G) call(name string, args ...*lang.Node) *lang.Node {
	if !g.builtinFree(name) {
		return nil
	}
	g.feat("builtin:" + name)
	return lang.Call(lang.Ident(name), args...)
}

func (g *G) intExpr(depth int) *lang.Node {
	if depth <= 0 {
		if v := g.varOf(TInt, "intVar0"); v != nil && g.chance(600, "useIntVar0") {
			return v
		}
		return g.intLit()
	}
	switch g.weighted("intKind", 20, 25, 25, 6, 6, 4, 4, 3, 3, 2) {
	case 0:
		return g.intLit()
	case 1:
		if v := g.varOf(TInt, "intVar"); v != nil {
			return v
		}
		return g.intLit()
	case 2:
		ops := []string{"+", "-", "*", "/", "%", "&", "|", "^", "&^", "<<", ">>"}
		op := ops[g.weighted("intBin", 10, 8, 6, 4, 4, 2, 2, 2, 1, 2, 2)]
		g.feat("int-op")
		switch op {
		case "/", "%":
			return lang.Binary(op, g.intExpr(depth-1), g.nonZeroInt())
		case "<<", ">>":
			sh := lang.Int(int64(g.draw(70, "sh")))
			if g.chance(100, "negShift") {
				return lang.Binary(op, g.intExpr(depth-1), lang.Unary("-", lang.Int(1)))
			}
			return lang.Binary(op, g.intExpr(depth-1), sh)
		}
		return lang.Binary(op, g.intExpr(depth-1), g.intExpr(depth-1))
	case 3:
		if g.chance(700, "neg") {
			return lang.Unary("-", g.intExpr(depth-1))
		}
		return lang.Unary("^", g.intExpr(depth-1))
	case 4:
		t := []Ty{TStr, TArr, TMap, TBytes}[g.draw(4, "lenOf")]
		if c := g.call("len", g.expr(t, depth-1)); c != nil {
			return c
		}
	case 5:
		t := []Ty{TFloat, TStr, TChar, TBool, TInt}[g.draw(5, "intOf")]
		arg := g.expr(t, depth-1)
		if t == TStr {
			arg = lang.Str([]string{"12", "-7", "0", "9223372036854775807", "007", "+5"}[g.draw(6, "numStrV")])
			if g.chance(150, "badNumStr") {
				// no conversion: yields the default (or undefined)
				arg = lang.Str([]string{"x1", " 3", "1e3", "", "9223372036854775808"}[g.draw(5, "badNumStrV")])
				if c := g.call("int", arg, g.intLit()); c != nil {
					return c
				}
			}
		}
		if g.chance(300, "intDefault") {
			if c := g.call("int", arg, g.intLit()); c != nil {
				return c
			}
		}
		if c := g.call("int", arg); c != nil {
			return c
		}
	case 6:
		// element of an int array / bytes
		if v := g.pickVar("intArr", func(v *vinfo) bool { return v.t == TArr && v.elem == TInt && v.alen > 0 }); v != nil {
			return lang.Index(lang.Ident(v.name), lang.Int(int64(g.draw(v.alen, "intArrIdx"))))
		}
		if g.builtinFree("bytes") {
			return lang.Index(lang.Call(lang.Ident("bytes"), lang.Str("abc")), lang.Int(int64(g.draw(3, "bi"))))
		}
	case 7:
		// char arithmetic yields char; char - char too: int(c)
		if c := g.call("int", g.charExpr(depth-1)); c != nil {
			return c
		}
	case 8:
		if f := g.pickVar("intFn", func(v *vinfo) bool { return v.t == TFn && !v.self }); f != nil {
			return g.callOf(f)
		}
	case 9:
		if !g.o.NoTime {
			a, b := g.varOf(TTime, "tA"), g.varOf(TTime, "tB")
			if a != nil && b != nil {
				g.feat("time-sub")
				return lang.Binary("-", a, b)
			}
		}
	}
	return g.intLit()
}

var floatLits = []float64{0, 0.5, 1, 1.5, 2, 2.5, 3.25, 10, 100, 0.1, 1e-7, 1e21, 1e100, 123456.789, 1.7976931348623157e308, 5e-324}

func (g *G) floatExpr(depth int) *lang.Node {
	if depth <= 0 {
		return lang.Float(floatLits[g.draw(len(floatLits), "flt0")])
	}
	switch g.weighted("fltKind", 20, 20, 25, 10, 5, 5, 4) {
	case 0:
		return lang.Float(floatLits[g.draw(len(floatLits), "flt")])
	case 1:
		if v := g.varOf(TFloat, "fltVar"); v != nil {
			return v
		}
	case 2:
		op := []string{"+", "-", "*", "/"}[g.draw(4, "fltOp")]
		g.feat("float-op")
		return lang.Binary(op, g.floatExpr(depth-1), g.floatExpr(depth-1))
	case 3:
		// mixed int/float
		op := []string{"+", "-", "*", "/"}[g.draw(4, "mixOp")]
		g.feat("int-float-op")
		if g.chance(500, "mixSide") {
			return lang.Binary(op, g.intExpr(depth-1), g.floatExpr(depth-1))
		}
		return lang.Binary(op, g.floatExpr(depth-1), g.intExpr(depth-1))
	case 4:
		return lang.Unary("-", g.floatExpr(depth-1))
	case 5:
		t := []Ty{TInt, TStr, TFloat}[g.draw(3, "fltOf")]
		arg := g.expr(t, depth-1)
		if t == TStr {
			arg = lang.Str([]string{"1.5", "-2e3", "inf", "NaN", "0x10", "1_0", ".5"}[g.draw(7, "fltStrV")])
			if g.chance(150, "badFltStr") {
				arg = lang.Str([]string{"abc", "", "1.5x"}[g.draw(3, "badFltStrV")])
				if c := g.call("float", arg, lang.Float(0.5)); c != nil {
					return c
				}
			}
		}
		if c := g.call("float", arg); c != nil {
			return c
		}
	case 6:
		if v := g.pickVar("fltArr", func(v *vinfo) bool { return v.t == TArr && v.elem == TFloat && v.alen > 0 }); v != nil {
			return lang.Index(lang.Ident(v.name), lang.Int(int64(g.draw(v.alen, "fltArrIdx"))))
		}
	}
	return lang.Float(floatLits[g.draw(len(floatLits), "fltF")])
}

var strLits = []string{"", "a", "b", "ab", "abc", "hello", "x y", "é", "日本", "a\x00b", "\n", "12", "-7", "\xff", "a\xffb", "😀", "%d", "q\"uote", "back\\"}

func (g *G) strLit() *lang.Node { return lang.Str(strLits[g.draw(len(strLits), "str")]) }

func (g *G) strExpr(depth int) *lang.Node {
	if depth <= 0 {
		if v := g.varOf(TStr, "strVar0"); v != nil && g.chance(500, "useStrVar0") {
			return v
		}
		return g.strLit()
	}
	switch g.weighted("strKind", 20, 20, 14, 10, 8, 8, 5, 5, 4) {
	case 0:
		return g.strLit()
	case 1:
		if v := g.varOf(TStr, "strVar"); v != nil {
			return v
		}
	case 2:
		g.feat("string-concat")
		return lang.Binary("+", g.strExpr(depth-1), g.strExpr(depth-1))
	case 3:
		// string + any: right operand rendered by its String()
		g.feat("string-plus-any")
		t := []Ty{TInt, TFloat, TChar, TBool, TArr, TUndef, TErr, TBytes, TMap, TFn}[g.weighted("spaTy", 8, 6, 4, 3, 4, 2, 2, 2, 2, 1)]
		if t == TMap && g.o.NoMapIter {
			t = TInt
		}
		return lang.Binary("+", g.strExpr(depth-1), g.expr(t, depth-1))
	case 4:
		t := []Ty{TInt, TFloat, TChar, TBool, TBytes, TArr, TUndef, TStr, TErr}[g.draw(9, "strOf")]
		if g.chance(250, "strDefault") {
			if c := g.call("string", g.expr(t, depth-1), g.strLit()); c != nil {
				return c
			}
		}
		if c := g.call("string", g.expr(t, depth-1)); c != nil {
			return c
		}
	case 5:
		g.feat("string-slice")
		return g.sliceOf(g.strExpr(depth - 1))
	case 6:
		if c := g.call("type_name", g.expr(TAny, depth-1)); c != nil {
			return c
		}
	case 7:
		if !g.o.NoFormat && g.builtinFree("format") {
			return g.formatCall(depth)
		}
	case 8:
		if v := g.pickVar("strArr", func(v *vinfo) bool { return v.t == TArr && v.elem == TStr && v.alen > 0 }); v != nil {
			return lang.Index(lang.Ident(v.name), lang.Int(int64(g.draw(v.alen, "strArrIdx"))))
		}
	}
	return g.strLit()
}

func (g *G) formatCall(depth int) *lang.Node {
	g.feat("builtin:format")
	type dir struct {
		s string
		t Ty
	}
	dirs := []dir{{"%d", TInt}, {"%s", TStr}, {"%t", TBool}, {"%f", TFloat}, {"%.2f", TFloat}, {"%x", TInt}, {"%q", TStr},
		{"%5d", TInt}, {"%-5s|", TStr}, {"%05d", TInt}, {"%+d", TInt}, {"%e", TFloat}, {"%x", TStr}}
	n := 1 + g.draw(3, "fmtN")
	f := ""
	var args []*lang.Node
	for i := 0; i < n; i++ {
		d := dirs[g.draw(len(dirs), "fmtDir")]
		f += []string{"", "a=", " ", "<", "é"}[g.draw(5, "fmtLit")] + d.s
		// arguments must be of the directive's type: plain literals/variables
		switch d.t {
		case TInt:
			args = append(args, g.intExpr(1))
		case TStr:
			args = append(args, g.strLit())
		case TBool:
			args = append(args, lang.Bool(g.chance(500, "fmtB")))
		default:
			args = append(args, lang.Float(floatLits[g.draw(len(floatLits), "fmtF")]))
		}
	}
	return lang.Call(lang.Ident("format"), append([]*lang.Node{lang.Str(f)}, args...)...)
}

func (g *G) sliceOf(base *lang.Node) *lang.Node {
	var lo, hi *lang.Node
	wOdd := 0
	if g.errMode {
		wOdd = 1
	}
	switch g.weighted("sliceForm", 4, 3, 3, wOdd) {
	case 0:
		lo, hi = lang.Int(int64(g.draw(3, "lo"))), lang.Int(int64(1+g.draw(4, "hi")))
	case 1:
		lo = lang.Int(int64(g.draw(3, "lo1")))
	case 2:
		hi = lang.Int(int64(g.draw(4, "hi1")))
	default:
		lo, hi = g.expr(TInt, 1), g.expr(TInt, 1)
	}
	if hi != nil && hi.K == "int" && g.chance(60, "negLo") {
		lo = lang.Unary("-", lang.Int(1)) // clamps to 0
	}
	return lang.Slice(base, lo, hi)
}

var charLits = []rune{'a', 'b', 'z', 'A', '0', ' ', '\n', 0, 0x7f, 'é', '日', 0x1F600, 0x10FFFF}

func (g *G) charExpr(depth int) *lang.Node {
	if depth <= 0 {
		return lang.Char(charLits[g.draw(len(charLits), "ch0")])
	}
	switch g.weighted("chKind", 20, 15, 12, 8, 6, 4) {
	case 0:
		return lang.Char(charLits[g.draw(len(charLits), "ch")])
	case 1:
		if v := g.varOf(TChar, "chVar"); v != nil {
			return v
		}
	case 2:
		g.feat("char-arith")
		op := []string{"+", "-"}[g.draw(2, "chOp")]
		switch g.draw(3, "chForm") {
		case 0:
			return lang.Binary(op, g.charExpr(depth-1), g.intExpr(depth-1))
		case 1:
			return lang.Binary(op, g.intExpr(depth-1), g.charExpr(depth-1))
		}
		return lang.Binary(op, g.charExpr(depth-1), g.charExpr(depth-1))
	case 3:
		g.feat("string-index")
		if g.errMode {
			return lang.Index(g.strExpr(depth-1), lang.Int(int64(g.draw(3, "si"))))
		}
		lit := []string{"abc", "héllo", "日本語x", "a\xffbc"}[g.draw(4, "siLit")]
		return lang.Index(lang.Str(lit), lang.Int(int64(g.draw(3, "si"))))
	case 4:
		if c := g.call("char", g.intExpr(depth-1)); c != nil {
			return c
		}
	}
	return lang.Char(charLits[g.draw(len(charLits), "chF")])
}

func (g *G) boolExpr(depth int) *lang.Node {
	if depth <= 0 {
		if v := g.varOf(TBool, "boolVar0"); v != nil && g.chance(400, "useBoolVar0") {
			return v
		}
		return lang.Bool(g.chance(500, "b0"))
	}
	switch g.weighted("boolKind", 8, 10, 30, 10, 8, 10, 6, 4) {
	case 0:
		return lang.Bool(g.chance(500, "b"))
	case 1:
		if v := g.varOf(TBool, "boolVar"); v != nil {
			return v
		}
	case 2:
		// ordered comparison on matching (or documented mixed) types
		op := []string{"<", "<=", ">", ">="}[g.draw(4, "cmpOp")]
		g.feat("comparison")
		switch g.weighted("cmpTy", 10, 4, 4, 3, 3, 2, 1) {
		case 0:
			return lang.Binary(op, g.intExpr(depth-1), g.intExpr(depth-1))
		case 1:
			return lang.Binary(op, g.floatExpr(depth-1), g.floatExpr(depth-1))
		case 2:
			if g.chance(500, "ifSide") {
				return lang.Binary(op, g.intExpr(depth-1), g.floatExpr(depth-1))
			}
			return lang.Binary(op, g.floatExpr(depth-1), g.intExpr(depth-1))
		case 3:
			return lang.Binary(op, g.strExpr(depth-1), g.strExpr(depth-1))
		case 4:
			return lang.Binary(op, g.charExpr(depth-1), g.charExpr(depth-1))
		case 5:
			if g.chance(500, "icSide") {
				return lang.Binary(op, g.intExpr(depth-1), g.charExpr(depth-1))
			}
			return lang.Binary(op, g.charExpr(depth-1), g.intExpr(depth-1))
		default:
			a, b := g.varOf(TTime, "cmpT1"), g.varOf(TTime, "cmpT2")
			if a != nil && b != nil {
				return lang.Binary(op, a, b)
			}
			return lang.Binary(op, g.intExpr(depth-1), g.intExpr(depth-1))
		}
	case 3:
		op := []string{"==", "!="}[g.draw(2, "eqOp")]
		g.feat("equality")
		t := Ty(1 + g.draw(int(TImmMap), "eqTy"))
		if t == TFn || (t == TTime && g.o.NoTime) {
			t = TInt
		}
		if g.chance(200, "eqMixed") {
			return lang.Binary(op, g.expr(t, depth-1), g.expr(TAny, depth-1))
		}
		return lang.Binary(op, g.expr(t, depth-1), g.expr(t, depth-1))
	case 4:
		g.feat("not")
		return lang.Unary("!", g.expr(TAny, depth-1))
	case 5:
		// && / || over bools
		op := []string{"&&", "||"}[g.draw(2, "logOp")]
		g.feat("logical")
		return lang.Binary(op, g.boolExpr(depth-1), g.boolExpr(depth-1))
	case 6:
		preds := []string{"is_int", "is_float", "is_string", "is_bool", "is_char", "is_bytes", "is_array", "is_immutable_array",
			"is_map", "is_immutable_map", "is_iterable", "is_time", "is_error", "is_undefined", "is_function", "is_callable"}
		if c := g.call(preds[g.draw(len(preds), "pred")], g.expr(TAny, depth-1)); c != nil {
			return c
		}
	case 7:
		if c := g.call("bool", g.expr(TAny, depth-1)); c != nil {
			return c
		}
	}
	return lang.Bool(g.chance(500, "bF"))
}

func (g *G) bytesExpr(depth int) *lang.Node {
	switch g.weighted("bytesKind", 10, 8, 4, 3, 2) {
	case 0:
		if c := g.call("bytes", g.strLit()); c != nil {
			return c
		}
	case 1:
		if v := g.varOf(TBytes, "bytesVar"); v != nil {
			if depth > 0 && g.chance(400, "bytesCat") {
				g.feat("bytes-concat")
				return lang.Binary("+", v, g.bytesExpr(depth-1))
			}
			return v
		}
	case 2:
		if c := g.call("bytes", lang.Int(int64(g.draw(5, "bytesN")))); c != nil {
			return c
		}
	case 3:
		if depth > 0 {
			g.feat("bytes-slice")
			return g.sliceOf(g.bytesExpr(depth - 1))
		}
	case 4:
		if depth > 0 {
			g.feat("bytes-concat")
			return lang.Binary("+", g.bytesExpr(depth-1), g.bytesExpr(depth-1))
		}
	}
	if g.builtinFree("bytes") {
		return lang.Call(lang.Ident("bytes"), lang.Str("xy"))
	}
	return lang.Str("xy")
}

func (g *G) arrLit(depth int) (*lang.Node, Ty) {
	n := g.weighted("arrN", 2, 3, 4, 4, 2)
	elem := Ty(g.weighted("arrElem", 3, 10, 3, 5, 1, 1, 0, 2, 1))
	xs := make([]*lang.Node, n)
	for i := range xs {
		xs[i] = g.expr(elem, depth-1)
	}
	g.feat("array-literal")
	return lang.Array(xs...), elem
}

func (g *G) arrExpr(depth int) (*lang.Node, Ty) {
	if depth <= 0 {
		if v := g.pickVar("arrVar0", func(v *vinfo) bool { return v.t == TArr }); v != nil && g.chance(500, "useArrVar0") {
			return lang.Ident(v.name), v.elem
		}
		return lang.Array(lang.Int(1), lang.Int(2)), TInt
	}
	switch g.weighted("arrKind", 25, 18, 10, 10, 8, 5, 4, 3, 3) {
	case 0:
		return g.arrLit(depth)
	case 1:
		if v := g.pickVar("arrVar", func(v *vinfo) bool { return v.t == TArr }); v != nil {
			return lang.Ident(v.name), v.elem
		}
	case 2:
		g.feat("array-concat")
		a, ea := g.arrExpr(depth - 1)
		b, eb := g.arrExpr(depth - 1)
		if ea != eb {
			ea = TAny
		}
		return lang.Binary("+", a, b), ea
	case 3:
		a, ea := g.arrExpr(depth - 1)
		args := []*lang.Node{a}
		for i := 1 + g.draw(2, "appN"); i > 0; i-- {
			args = append(args, g.expr(ea, depth-1))
		}
		if c := g.call("append", args...); c != nil {
			return c, ea
		}
	case 4:
		g.feat("array-slice")
		a, ea := g.arrExpr(depth - 1)
		return g.sliceOf(a), ea
	case 5:
		a, ea := g.arrExpr(depth - 1)
		if c := g.call("copy", a); c != nil {
			return c, ea
		}
	case 6:
		lo, hi := int64(g.draw(4, "rlo")), int64(g.draw(7, "rhi"))
		args := []*lang.Node{lang.Int(lo), lang.Int(hi)}
		if g.chance(300, "rstep") {
			st := int64(1 + g.draw(3, "rs"))
			if g.risk(100, "rsZero") {
				st = 0 // an error
			}
			args = append(args, lang.Int(st))
		}
		if c := g.call("range", args...); c != nil {
			return c, TInt
		}
	case 7:
		// slice / + on an immutable array yields a mutable array
		if v := g.pickVar("immArrVar", func(v *vinfo) bool { return v.t == TImmArr }); v != nil {
			g.feat("derive-from-immutable")
			if g.chance(500, "immSlice") {
				return g.sliceOf(lang.Ident(v.name)), v.elem
			}
			if c := g.call("append", lang.Ident(v.name), g.expr(v.elem, depth-1)); c != nil {
				return c, v.elem
			}
		}
	case 8:
		// values of a map's key as array element etc.: array of mixed
		return lang.Array(g.expr(TAny, depth-1), g.expr(TAny, depth-1)), TAny
	}
	return g.arrLit(depth)
}

func (g *G) mapLit(depth int) (*lang.Node, []string) {
	n := g.weighted("mapN", 2, 4, 4, 2)
	pool := []string{"a", "b", "c", "k1", "x", "value", "key with space", "é"}
	var keys []string
	var vals []*lang.Node
	used := map[string]bool{}
	for i := 0; i < n; i++ {
		k := pool[g.draw(len(pool), "mapKey")]
		if used[k] && !g.chance(100, "dupKey") {
			continue
		}
		used[k] = true
		keys = append(keys, k)
		vals = append(vals, g.expr(TAny, depth-1))
	}
	g.feat("map-literal")
	return lang.Map(keys, vals), keys
}

func (g *G) mapExpr(depth int) (*lang.Node, []string) {
	if depth <= 0 {
		if v := g.pickVar("mapVar0", func(v *vinfo) bool { return v.t == TMap }); v != nil {
			return lang.Ident(v.name), v.keys
		}
		return lang.Map([]string{"a"}, []*lang.Node{lang.Int(1)}), []string{"a"}
	}
	switch g.weighted("mapKind", 25, 15, 4) {
	case 1:
		if v := g.pickVar("mapVar", func(v *vinfo) bool { return v.t == TMap }); v != nil {
			return lang.Ident(v.name), v.keys
		}
	case 2:
		m, keys := g.mapExpr(depth - 1)
		if c := g.call("copy", m); c != nil {
			return c, keys
		}
	}
	return g.mapLit(depth)
}

// callOf generates a call to function variable f.
func (g *G) callOf(f *vinfo) *lang.Node {
	g.feat("call")
	n := f.arity
	if f.variadic {
		n = f.arity - 1 + g.draw(3, "extraArgs")
		if n < 0 {
			n = 0
		}
	}
	if g.risk(60, "wrongArity") {
		n += 1
		g.feat("wrong-arity-call")
	}
	args := make([]*lang.Node, 0, n)
	for i := 0; i < n; i++ {
		want := TAny
		if i < len(f.ptys) && !(f.variadic && i >= f.arity-1) {
			want = f.ptys[i]
		}
		args = append(args, g.expr(want, 2))
	}
	if g.chance(120, "spread") {
		if a := g.pickVar("spreadArr", func(v *vinfo) bool {
			return (v.t == TArr || v.t == TImmArr) && (f.variadic || g.errMode)
		}); a != nil {
			g.feat("spread-call")
			if len(args) > 0 && g.chance(600, "spreadReplace") {
				args = args[:len(args)-1]
			}
			return lang.CallSpread(lang.Ident(f.name), append(args, lang.Ident(a.name))...)
		}
	}
	return lang.Call(lang.Ident(f.name), args...)
}
