// Package gen generates well-scoped tengo programs (as lang ASTs) covering
// the statement/expression grammar, type-directed but not type-strict, plus
// host input values. All random choices are rapid draws.
package gen

import (
	"fmt"
	"math"

	"pgregory.net/rapid"

	"verifharness/lang"
)

// Ty is the generator's guess of a value's run-time type.
type Ty int

const (
	TAny Ty = iota
	TInt
	TFloat
	TStr
	TChar
	TBool
	TBytes
	TArr
	TMap
	TFn
	TErr
	TUndef
	TTime
	TImmArr
	TImmMap
)

var tyNames = []string{"any", "int", "float", "string", "char", "bool", "bytes", "array", "map", "func", "error",
	"undefined", "time", "imm-array", "imm-map"}

func (t Ty) String() string { return tyNames[t] }

type vinfo struct {
	name     string
	t        Ty
	elem     Ty // element type guess for arrays / value type for maps
	arity    int
	variadic bool
	loopVar  bool // loop counter: not assigned by generated statements
	keys     []string
	self     bool // function variable visible inside its own literal only so far
	ptys     []Ty // parameter type guesses of a function value
	alen     int  // known minimal length of an array value (0 = unknown/empty)
	fnLvl    int  // function nesting depth at the declaration
	loopLvl  int  // loop nesting depth (within its function) at the declaration
}

type scope struct {
	parent *scope
	vars   []*vinfo
	isFunc bool // function boundary
}

// Opts configures program generation.
type Opts struct {
	MaxStmts      int      // top-level statement budget (total statements ~ 2-3x)
	MaxDepth      int      // expression depth
	Risky         int      // per-mille probability of a type-undirected sub-expression
	NoMapIter     bool     // do not iterate maps / render maps to strings
	ScopeIndep    bool     // C11 fragment: closures made in loop bodies that capture loop-body variables are only called in place
	InModule      bool     // generating a module body: export allowed, no host inputs
	Modules       []string // importable source-module names
	HostMods      []string // importable builtin (Go) module names
	NoFormat      bool
	NoTime        bool
	NoHostFns     bool
	AllowExport   bool
	ControlHeavy  bool // bias towards loops, branches, returns and function literals
	DeadCode      bool // keep generating statements after return/break/continue more often
	AlwaysErrMode bool // every program may contain deliberately ill-typed sites
	StringHeavy   bool // bias towards string / bytes producing operations (size limits)
}

// G is the generation context.
type G struct {
	t          *rapid.T
	o          Opts
	sc         *scope
	nameN      int
	fnDepth    int
	loopDepth  int // loops inside the current function
	stmtBudget int
	label      int
	hideLoop   []int // ScopeIndep: function depths whose loop-body variables are hidden (inside a function literal made in a loop)
	errMode    bool  // this program may contain deliberately ill-typed sites
	// stats for classification
	Feat map[string]int
}

// risk is chance() for deliberately ill-typed / failing constructs: only
// programs drawn in error mode contain them, so that most programs run to
// completion while the error paths are still exercised.
func (g *G) risk(permille int, label string) bool {
	if !g.errMode {
		return false
	}
	return g.chance(permille, label)
}

func (g *G) feat(s string) { g.Feat[s]++ }

func (g *G) draw(n int, label string) int {
	if n <= 1 {
		return 0
	}
	g.label++
	return rapid.IntRange(0, n-1).Draw(g.t, label)
}

func (g *G) chance(permille int, label string) bool {
	return rapid.IntRange(0, 999).Draw(g.t, label) < permille
}

// weighted picks an index according to weights.
func (g *G) weighted(label string, w ...int) int {
	tot := 0
	for _, x := range w {
		tot += x
	}
	r := rapid.IntRange(0, tot-1).Draw(g.t, label)
	for i, x := range w {
		if r < x {
			return i
		}
		r -= x
	}
	return len(w) - 1
}

func (g *G) push(isFunc bool) { g.sc = &scope{parent: g.sc, isFunc: isFunc} }
func (g *G) pop()             { g.sc = g.sc.parent }

func (g *G) declare(v *vinfo) {
	v.fnLvl, v.loopLvl = g.fnDepth, g.loopDepth
	g.sc.vars = append(g.sc.vars, v)
}

func (g *G) hidden(v *vinfo) bool {
	for _, d := range g.hideLoop {
		if v.fnLvl == d && v.loopLvl > 0 {
			return true
		}
	}
	return false
}

// visible returns visible variables, innermost first, shadowed ones removed.
func (g *G) visible() []*vinfo {
	seen := map[string]bool{}
	var out []*vinfo
	for s := g.sc; s != nil; s = s.parent {
		for i := len(s.vars) - 1; i >= 0; i-- {
			v := s.vars[i]
			if !seen[v.name] {
				seen[v.name] = true
				if !g.hidden(v) {
					out = append(out, v)
				}
			}
		}
	}
	return out
}

func (g *G) lookup(name string) *vinfo {
	for s := g.sc; s != nil; s = s.parent {
		for i := len(s.vars) - 1; i >= 0; i-- {
			if s.vars[i].name == name {
				return s.vars[i]
			}
		}
	}
	return nil
}

func (g *G) inCurrentBlock(name string) bool {
	for _, v := range g.sc.vars {
		if v.name == name {
			return true
		}
	}
	return false
}

func (g *G) varsOf(pred func(*vinfo) bool) []*vinfo {
	var out []*vinfo
	for _, v := range g.visible() {
		if pred(v) {
			out = append(out, v)
		}
	}
	return out
}

func (g *G) pickVar(label string, pred func(*vinfo) bool) *vinfo {
	vs := g.varsOf(pred)
	if len(vs) == 0 {
		return nil
	}
	return vs[g.draw(len(vs), label)]
}

var builtinSet = func() map[string]bool {
	m := map[string]bool{}
	for _, b := range lang.BuiltinNames {
		m[b] = true
	}
	return m
}()

// builtinFree reports whether the builtin name still denotes the builtin.
func (g *G) builtinFree(name string) bool { return g.lookup(name) == nil }

func (g *G) freshName() string {
	// occasionally shadow an outer name (never in the same block)
	if g.sc.parent != nil && g.chance(80, "shadow") {
		vs := g.visible()
		if len(vs) > 0 {
			c := vs[g.draw(len(vs), "shadowWhich")]
			if !g.inCurrentBlock(c.name) && !c.loopVar {
				g.feat("shadowing")
				return c.name
			}
		}
	}
	if g.sc.parent != nil && g.chance(15, "shadowBuiltin") {
		n := []string{"len", "copy", "string", "int", "format"}[g.draw(5, "sbWhich")]
		if !g.inCurrentBlock(n) {
			g.feat("shadow-builtin")
			return n
		}
	}
	g.nameN++
	return fmt.Sprintf("v%d", g.nameN)
}

// Program generates a main program (and modules when configured).
func Program(t *rapid.T, o Opts, inputs map[string]*lang.Val) (*lang.Program, map[string]int) {
	if o.MaxStmts == 0 {
		o.MaxStmts = 12
	}
	if o.MaxDepth == 0 {
		o.MaxDepth = 4
	}
	if o.Risky == 0 {
		o.Risky = 12
	}
	prog := &lang.Program{}
	feat := map[string]int{}
	errMode := rapid.IntRange(0, 99).Draw(t, "errMode") < 30 || o.AlwaysErrMode
	if errMode {
		feat["error-mode"] = 1
	}
	if len(o.Modules) > 0 {
		prog.Modules = map[string]*lang.Node{}
		// modules may import modules generated before them (acyclic)
		for i, m := range o.Modules {
			mo := o
			mo.InModule = true
			mo.Modules = o.Modules[:i]
			mo.MaxStmts = 2 + rapid.IntRange(0, 5).Draw(t, "modStmts")
			mg := &G{t: t, o: mo, Feat: feat, errMode: errMode && rapid.Bool().Draw(t, "modErr")}
			mg.push(false)
			body := mg.block(mo.MaxStmts, true)
			if rapid.IntRange(0, 9).Draw(t, "modExport") > 0 {
				body.Kids = append(body.Kids, lang.Export(mg.exportValue()))
			}
			prog.Modules[m] = body
		}
	}
	g := &G{t: t, o: o, Feat: feat, errMode: errMode}
	g.push(false)
	names := make([]string, 0, len(inputs))
	for k := range inputs {
		names = append(names, k)
	}
	sortStrings(names)
	for _, k := range names {
		g.declare(valInfo(k, inputs[k]))
	}
	n := 3 + rapid.IntRange(0, o.MaxStmts-3).Draw(t, "nstmts")
	prog.Main = g.block(n, true)
	return prog, feat
}

func sortStrings(a []string) {
	for i := 1; i < len(a); i++ {
		for j := i; j > 0 && a[j] < a[j-1]; j-- {
			a[j], a[j-1] = a[j-1], a[j]
		}
	}
}

func valInfo(name string, v *lang.Val) *vinfo {
	vi := &vinfo{name: name}
	switch v.T {
	case "int":
		vi.t = TInt
	case "float":
		vi.t = TFloat
	case "char":
		vi.t = TChar
	case "string":
		vi.t = TStr
	case "bytes":
		vi.t = TBytes
	case "bool":
		vi.t = TBool
	case "undefined":
		vi.t = TUndef
	case "time":
		vi.t = TTime
	case "error":
		vi.t = TErr
	case "array":
		vi.t = TArr
		vi.alen = len(v.Kids)
	case "imm-array":
		vi.t = TImmArr
		vi.alen = len(v.Kids)
	case "map":
		vi.t = TMap
		vi.keys = v.Keys
	case "imm-map":
		vi.t = TImmMap
		vi.keys = v.Keys
	case "builtin":
		vi.t = TFn
		vi.arity = 1
	case "hostfn":
		vi.t = TFn
		vi.arity = 1
		if v.Name == "hf_args" {
			vi.arity = 2
		}
		if v.Name == "hf_len" || v.Name == "hf_pack" {
			vi.variadic = true
			vi.arity = 1
		}
	}
	return vi
}

// block generates n statements in the current scope (top=true) or a new
// block scope.
func (g *G) block(n int, top bool) *lang.Node {
	if !top {
		g.push(false)
		defer g.pop()
	}
	b := lang.Block()
	for i := 0; i < n; i++ {
		s := g.stmt()
		if s == nil {
			continue
		}
		if s.K == "seq" {
			b.Kids = append(b.Kids, s.Kids...)
			continue
		}
		b.Kids = append(b.Kids, s)
		if s.K == "return" || s.K == "break" || s.K == "continue" {
			// code after a terminating statement: sometimes keep going (dead code)
			pDead := 250
			if g.o.DeadCode {
				pDead = 650
			}
			if !g.chance(pDead, "deadAfter") {
				break
			}
			g.feat("dead-code-after-terminator")
		}
	}
	return b
}

func (g *G) exportValue() *lang.Node {
	switch g.weighted("exportKind", 4, 3, 2) {
	case 0:
		// map of visible values and functions
		vs := g.visible()
		var keys []string
		var vals []*lang.Node
		for i, v := range vs {
			if i >= 4 {
				break
			}
			keys = append(keys, "k"+v.name)
			vals = append(vals, lang.Ident(v.name))
		}
		keys = append(keys, "extra")
		vals = append(vals, g.expr(TAny, 2))
		return lang.Map(keys, vals)
	case 1:
		return g.expr(TArr, 2)
	}
	return g.expr(TAny, 2)
}

// ---------- statements ----------

func (g *G) stmt() *lang.Node {
	inFn := g.fnDepth > 0
	inLoop := g.loopDepth > 0
	wRet, wBrk := 0, 0
	if inFn {
		wRet = 6
	}
	if inLoop {
		wBrk = 5
	}
	wFn := 5
	if inFn {
		wFn = 14
	}
	w := []int{30, 14, 8, 6, 10, 7, 8, 9, 8, wRet, wBrk, 1, wFn, 9}
	if g.o.ControlHeavy {
		w = []int{10, 6, 3, 3, 4, 16, 16, 12, 4, 3 * wRet, 4 * wBrk, 2, 2 * wFn, 4}
	}
	if g.o.StringHeavy {
		w = []int{30, 10, 24, 2, 6, 5, 10, 8, 4, wRet, wBrk, 1, wFn, 14}
	}
	switch g.weighted("stmt", w...) {
	case 0:
		return g.defineStmt()
	case 1:
		return g.assignStmt()
	case 2:
		return g.compoundStmt()
	case 3:
		return g.incDecStmt()
	case 4:
		return g.selAssignStmt()
	case 5:
		return g.ifStmt()
	case 6:
		return g.forStmt()
	case 7:
		return g.forInStmt()
	case 8:
		return g.callStmt()
	case 9:
		g.feat("return")
		if g.chance(150, "bareReturn") {
			return lang.Return(nil)
		}
		return lang.Return(g.expr(TAny, g.o.MaxDepth-1))
	case 10:
		if g.chance(500, "brkOrCont") {
			g.feat("break")
			// usually guarded
			if g.chance(700, "guardBrk") {
				return lang.If(nil, g.expr(TBool, 2), lang.Block(lang.Break()), nil)
			}
			return lang.Break()
		}
		g.feat("continue")
		if g.chance(800, "guardCont") {
			return lang.If(nil, g.expr(TBool, 2), lang.Block(lang.Continue()), nil)
		}
		return lang.Continue()
	case 11:
		g.feat("if-true-block")
		return lang.If(nil, lang.Bool(true), g.block(1+g.draw(3, "blkN"), false), nil)
	case 12:
		return g.funcDefineStmt()
	default:
		return g.templateStmt()
	}
}

func (g *G) defineStmt() *lang.Node {
	want := Ty(g.weighted("defTy", 6, 16, 8, 12, 5, 8, 4, 14, 10, 0, 3, 2, 2, 3, 3))
	if g.o.StringHeavy && g.chance(550, "strHeavyDef") {
		want = []Ty{TStr, TStr, TBytes, TMap}[g.draw(4, "strHeavyTy")]
	}
	if want == TTime && g.o.NoTime {
		want = TInt
	}
	e, info := g.exprInfo(want, g.o.MaxDepth)
	name := g.freshName()
	info.name = name
	// declare after generating the RHS: the name is not visible in it
	g.declare(info)
	return lang.Define(name, e)
}

func (g *G) funcDefineStmt() *lang.Node {
	name := g.freshName()
	np := g.weighted("nparams", 3, 5, 4, 2)
	variadic := np > 0 && g.chance(180, "variadic")
	info := &vinfo{name: name, t: TFn, arity: np, variadic: variadic}
	// f := func... : the name is visible inside its own literal
	g.declare(info)
	info.self = true
	fn := g.funcLit(np, variadic, info)
	info.self = false
	g.feat("func-define")
	return lang.Define(name, fn)
}

// funcLit generates a function literal with np parameters.
func (g *G) funcLit(np int, variadic bool, self *vinfo) *lang.Node {
	var ptys []Ty
	defer func() {
		if self != nil {
			self.ptys = ptys
		}
	}()
	if g.o.ScopeIndep && g.loopDepth > 0 && g.fnDepth == 0 {
		// the documented scope-dependent case: a closure made in a loop body
		// must not capture a variable declared in that body
		g.hideLoop = append(g.hideLoop, g.fnDepth)
		defer func() { g.hideLoop = g.hideLoop[:len(g.hideLoop)-1] }()
	}
	g.push(true)
	saveLoop := g.loopDepth
	g.loopDepth = 0
	g.fnDepth++
	var params []string
	for i := 0; i < np; i++ {
		g.nameN++
		p := fmt.Sprintf("p%d", g.nameN)
		params = append(params, p)
		pi := &vinfo{name: p, t: Ty(g.weighted("paramTy", 8, 10, 3, 4, 1, 1, 0, 3, 2))}
		if variadic && i == np-1 {
			pi.t = TArr
		}
		ptys = append(ptys, pi.t)
		if self != nil {
			self.ptys = ptys
		}
		g.declare(pi)
	}
	n := 1 + g.draw(4, "fnBodyN")
	if g.fnDepth > 2 {
		n = 1
	}
	body := g.block(n, false)
	if len(body.Kids) == 0 || body.Kids[len(body.Kids)-1].K != "return" {
		if g.chance(800, "fnRet") {
			// return inside the body's block scope: regenerate in a scope that
			// sees the parameters only (body locals are out of scope here)
			body.Kids = append(body.Kids, lang.Return(g.expr(TAny, 2)))
		}
	}
	g.fnDepth--
	g.loopDepth = saveLoop
	g.pop()
	g.feat("func-literal")
	return lang.Func(params, variadic, body)
}

func assignable(v *vinfo) bool { return !v.loopVar && !v.self }

func (g *G) assignStmt() *lang.Node {
	v := g.pickVar("asgVar", func(v *vinfo) bool { return assignable(v) })
	if v == nil {
		return g.defineStmt()
	}
	want := v.t
	if g.risk(150, "retype") {
		want = TAny
	}
	e, info := g.exprInfo(want, g.o.MaxDepth)
	v.t, v.elem, v.arity, v.variadic, v.keys, v.ptys, v.alen = info.t, info.elem, info.arity, info.variadic, info.keys, info.ptys, info.alen
	g.feat("assign")
	return lang.Assign("=", lang.Ident(v.name), e)
}

var intOps = []string{"+=", "-=", "*=", "/=", "%=", "&=", "|=", "^=", "&^=", "<<=", ">>="}

func (g *G) compoundStmt() *lang.Node {
	v := g.pickVar("cmpVar", func(v *vinfo) bool {
		if g.o.StringHeavy && g.chance(700, "strHeavyCmp") {
			return assignable(v) && (v.t == TStr || v.t == TBytes)
		}
		return assignable(v) && (v.t == TInt || v.t == TFloat || v.t == TStr || v.t == TArr || v.t == TChar || v.t == TBytes)
	})
	if v == nil {
		return g.defineStmt()
	}
	g.feat("compound-assign")
	switch v.t {
	case TInt:
		op := intOps[g.draw(len(intOps), "intOp")]
		var rhs *lang.Node
		switch op {
		case "/=", "%=":
			rhs = g.nonZeroInt()
		case "<<=", ">>=":
			rhs = lang.Int(int64(g.draw(8, "shiftBy")))
		default:
			rhs = g.expr(TInt, 2)
		}
		return lang.Assign(op, lang.Ident(v.name), rhs)
	case TFloat:
		op := []string{"+=", "-=", "*=", "/="}[g.draw(4, "fltOp")]
		return lang.Assign(op, lang.Ident(v.name), g.expr(TFloat, 2))
	case TStr:
		return lang.Assign("+=", lang.Ident(v.name), g.expr(TAny, 2))
	case TArr:
		return lang.Assign("+=", lang.Ident(v.name), g.expr(TArr, 2))
	case TBytes:
		return lang.Assign("+=", lang.Ident(v.name), g.expr(TBytes, 2))
	default:
		op := []string{"+=", "-="}[g.draw(2, "chOp")]
		return lang.Assign(op, lang.Ident(v.name), lang.Int(int64(g.draw(5, "chBy"))))
	}
}

func (g *G) incDecStmt() *lang.Node {
	v := g.pickVar("incVar", func(v *vinfo) bool {
		return assignable(v) && (v.t == TInt || v.t == TFloat || v.t == TChar)
	})
	if v == nil {
		return g.defineStmt()
	}
	g.feat("incdec")
	op := "++"
	if g.chance(400, "dec") {
		op = "--"
	}
	return lang.IncDec(op, lang.Ident(v.name))
}

// lvalue builds a selector/index chain on a container variable.
func (g *G) lvalue(v *vinfo) *lang.Node {
	var e *lang.Node = lang.Ident(v.name)
	t := v.t
	depth := 1
	if (v.elem == TArr || v.elem == TMap) && g.chance(600, "lvDeep") {
		depth = 2
	} else if g.risk(60, "lvDeepOdd") {
		depth = 2
	}
	for i := 0; i < depth; i++ {
		switch t {
		case TArr, TImmArr:
			if i == 0 && v.alen > 0 && !g.risk(100, "lvOob") {
				e = lang.Index(e, lang.Int(int64(g.draw(v.alen, "lvIdx"))))
			} else {
				e = lang.Index(e, g.smallIndex())
			}
		case TMap, TImmMap:
			key := g.mapKey(v)
			if g.chance(500, "lvSel") {
				e = lang.Sel(e, key)
			} else {
				e = lang.Index(e, lang.Str(key))
			}
		default:
			if g.chance(500, "lvAnyIdx") {
				e = lang.Index(e, g.smallIndex())
			} else {
				e = lang.Sel(e, g.mapKey(nil))
			}
		}
		t = v.elem
		if i > 0 {
			t = TAny
		}
	}
	return e
}

var commonKeys = []string{"a", "b", "c", "k1", "value", "x"}

func (g *G) mapKey(v *vinfo) string {
	if v != nil && len(v.keys) > 0 && g.chance(700, "knownKey") {
		k := v.keys[g.draw(len(v.keys), "whichKey")]
		if lang.IsPlainIdent(k) {
			return k
		}
	}
	return commonKeys[g.draw(len(commonKeys), "commonKey")]
}

func (g *G) smallIndex() *lang.Node {
	wNeg, wAny := 0, 0
	if g.errMode {
		wNeg, wAny = 1, 1
	}
	switch g.weighted("idxKind", 10, 3, wNeg, wAny) {
	case 0:
		return lang.Int(int64(g.draw(4, "idx")))
	case 1:
		if v := g.pickVar("idxVar", func(v *vinfo) bool { return v.t == TInt }); v != nil {
			return lang.Ident(v.name)
		}
		return lang.Int(0)
	case 2:
		return lang.Unary("-", lang.Int(1))
	}
	return g.expr(TAny, 1)
}

func (g *G) selAssignStmt() *lang.Node {
	v := g.pickVar("selVar", func(v *vinfo) bool {
		return !v.self && ((v.t == TArr && (v.alen > 0 || g.errMode)) || v.t == TMap || (g.risk(40, "selOdd") && !v.loopVar))
	})
	if v == nil {
		return g.defineStmt()
	}
	lhs := g.lvalue(v)
	g.feat("selector-assign")
	wc := 0
	if (v.t == TArr && v.elem == TInt && lhs.Kids[0].K == "ident") || g.errMode {
		wc = 1
	}
	switch g.weighted("selKind", 10, 3*wc, 2*wc) {
	case 0:
		if v.t == TArr && v.elem != TAny && lhs.Kids[0].K == "ident" && !g.risk(200, "selRetypeElem") {
			return lang.Assign("=", lhs, g.expr(v.elem, 3))
		}
		if v.t == TArr {
			v.elem = TAny
		}
		return lang.Assign("=", lhs, g.expr(TAny, 3))
	case 1:
		return lang.Assign("+=", lhs, g.expr(TInt, 2))
	}
	return lang.IncDec("++", lhs)
}

func (g *G) ifStmt() *lang.Node {
	g.feat("if")
	g.push(false)
	defer g.pop()
	var init *lang.Node
	if g.chance(200, "ifInit") {
		e, info := g.exprInfo(TAny, 2)
		info.name = g.freshName()
		g.declare(info)
		init = lang.Define(info.name, e)
		g.feat("if-init")
	}
	cond := g.expr(TBool, 3)
	then := g.block(1+g.draw(3, "thenN"), false)
	var els *lang.Node
	switch g.weighted("else", 5, 3, 2) {
	case 1:
		els = g.block(1+g.draw(2, "elseN"), false)
	case 2:
		els = g.ifStmt()
		g.feat("else-if")
	}
	return lang.If(init, cond, then, els)
}

func (g *G) forStmt() *lang.Node {
	g.feat("for")
	g.push(false)
	defer g.pop()
	g.loopDepth++
	defer func() { g.loopDepth-- }()
	g.nameN++
	i := fmt.Sprintf("i%d", g.nameN)
	bound := int64(1 + g.draw(5, "loopBound"))
	switch g.weighted("forKind", 10, 3, 2) {
	case 0:
		iv := &vinfo{name: i, t: TInt, loopVar: true}
		g.declare(iv)
		body := g.block(1+g.draw(3, "forBodyN"), false)
		return lang.For(lang.Define(i, lang.Int(0)), lang.Binary("<", lang.Ident(i), lang.Int(bound)),
			lang.IncDec("++", lang.Ident(i)), body)
	case 1:
		// while-style: counter declared before, incremented in the body
		iv := &vinfo{name: i, t: TInt, loopVar: true}
		g.declare(iv)
		body := g.block(1+g.draw(2, "whileBodyN"), false)
		body.Kids = append([]*lang.Node{lang.IncDec("++", lang.Ident(i))}, body.Kids...)
		loop := lang.For(nil, lang.Binary("<", lang.Ident(i), lang.Int(bound)), nil, body)
		return lang.If(nil, lang.Bool(true), lang.Block(lang.Define(i, lang.Int(0)), loop), nil)
	default:
		// infinite form with a guarded break first
		iv := &vinfo{name: i, t: TInt, loopVar: true}
		g.declare(iv)
		body := g.block(1+g.draw(2, "infBodyN"), false)
		guard := lang.If(nil, lang.Binary(">=", lang.Ident(i), lang.Int(bound)), lang.Block(lang.Break()), nil)
		body.Kids = append([]*lang.Node{guard, lang.IncDec("++", lang.Ident(i))}, body.Kids...)
		return lang.If(nil, lang.Bool(true), lang.Block(lang.Define(i, lang.Int(0)), lang.For(nil, nil, nil, body)), nil)
	}
}

func (g *G) forInStmt() *lang.Node {
	g.feat("for-in")
	// iterable is evaluated in the for scope, before key/value exist
	g.push(false)
	defer g.pop()
	var iter *lang.Node
	var kt, vt Ty = TInt, TAny
	var src *vinfo
	kinds := []int{10, 5, 3, 4, 2, 0}
	if g.risk(60, "iterAny") {
		kinds[5] = 20
	}
	if g.o.NoMapIter {
		kinds[1] = 0
	}
	switch g.weighted("iterKind", kinds...) {
	case 0:
		src = g.pickVar("iterArr", func(v *vinfo) bool { return v.t == TArr || v.t == TImmArr })
		if src != nil {
			iter = lang.Ident(src.name)
			vt = src.elem
		} else {
			iter = g.expr(TArr, 2)
		}
		g.feat("for-in-array")
	case 1:
		src = g.pickVar("iterMap", func(v *vinfo) bool { return v.t == TMap || v.t == TImmMap })
		if src != nil {
			iter = lang.Ident(src.name)
		} else {
			iter = g.expr(TMap, 2)
		}
		kt = TStr
		g.feat("for-in-map")
	case 2:
		iter = g.expr(TStr, 2)
		vt = TChar
		g.feat("for-in-string")
	case 3:
		iter = lang.Call(lang.Ident("range"), lang.Int(0), lang.Int(int64(g.draw(5, "rangeN"))))
		if !g.builtinFree("range") {
			iter = g.expr(TArr, 1)
		}
		vt = TInt
		g.feat("for-in-range")
	case 4:
		iter = g.expr(TBytes, 2)
		vt = TInt
		g.feat("for-in-bytes")
	default:
		iter = g.expr(TAny, 2)
		g.feat("for-in-any")
	}
	g.loopDepth++
	defer func() { g.loopDepth-- }()
	key, val := "", ""
	form := g.weighted("forInForm", 5, 4, 1)
	g.nameN++
	if form == 0 || form == 2 {
		key = fmt.Sprintf("k%d", g.nameN)
		if form == 2 {
			key = "_"
		}
	}
	val = fmt.Sprintf("e%d", g.nameN)
	if form == 2 && g.chance(300, "underscoreVal") {
		val = "_"
		key = fmt.Sprintf("k%d", g.nameN)
	}
	if key != "" && key != "_" {
		g.declare(&vinfo{name: key, t: kt, loopVar: true})
	}
	if val != "_" {
		// `for v in x` binds the VALUE to the single name
		g.declare(&vinfo{name: val, t: vt, loopVar: true})
	}
	body := g.block(1+g.draw(3, "forInBodyN"), false)
	// sometimes mutate the container being iterated
	if src != nil && (src.t == TArr || src.t == TMap) && g.chance(200, "mutIter") {
		g.feat("mutate-while-iterating")
		var m *lang.Node
		if src.t == TMap {
			if g.builtinFree("delete") && g.chance(600, "mutDel") {
				// delete another (possibly not yet visited) key, or the current one
				var k *lang.Node = lang.Str(g.mapKey(src))
				if key != "" && key != "_" && g.chance(300, "mutDelCur") {
					k = lang.Ident(key)
				}
				m = lang.ExprStmt(lang.Call(lang.Ident("delete"), lang.Ident(src.name), k))
			} else {
				m = lang.Assign("=", lang.Index(lang.Ident(src.name), lang.Str("zz")), lang.Int(1))
			}
		} else if g.builtinFree("splice") && g.chance(500, "mutSplice") {
			src.alen = 0
			m = lang.ExprStmt(lang.Call(lang.Ident("splice"), lang.Ident(src.name), lang.Int(0), lang.Int(1)))
		} else {
			m = lang.Assign("=", lang.Index(lang.Ident(src.name), lang.Int(0)), g.expr(TInt, 1))
		}
		body.Kids = append(body.Kids, m)
	}
	return lang.ForIn(key, val, iter, body)
}

func (g *G) callStmt() *lang.Node {
	g.feat("call-stmt")
	switch g.weighted("callStmtKind", 5, 3, 3, 2) {
	case 0:
		if f := g.pickVar("callFn", func(v *vinfo) bool { return v.t == TFn && !v.self }); f != nil {
			return lang.ExprStmt(g.callOf(f))
		}
	case 1:
		if a := g.pickVar("spliceArr", func(v *vinfo) bool { return v.t == TArr }); a != nil && g.builtinFree("splice") {
			args := []*lang.Node{lang.Ident(a.name), lang.Int(int64(g.draw(3, "spStart")))}
			if g.chance(700, "spCount") {
				cnt := lang.Int(int64(g.draw(3, "spCnt")))
				if g.chance(150, "spCntBig") {
					// "a count greater than what is left deletes to the end" -
					// also for counts at the far end of the int range
					cnt = lang.Int([]int64{4, 100, 1 << 31, math.MaxInt64 - 1, math.MaxInt64}[g.draw(5, "spCntB")])
				}
				args = append(args, cnt)
				for i := g.draw(3, "spItems"); i > 0; i-- {
					args = append(args, g.expr(TAny, 1))
				}
			}
			g.feat("splice")
			a.alen = 0
			return lang.ExprStmt(lang.Call(lang.Ident("splice"), args...))
		}
	case 2:
		if m := g.pickVar("delMap", func(v *vinfo) bool { return v.t == TMap }); m != nil && g.builtinFree("delete") {
			g.feat("delete")
			return lang.ExprStmt(lang.Call(lang.Ident("delete"), lang.Ident(m.name), lang.Str(g.mapKey(m))))
		}
	}
	return lang.ExprStmt(g.expr(TAny, 3))
}
