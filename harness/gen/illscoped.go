package gen

import (
	"pgregory.net/rapid"

	"verifharness/lang"
)

type blockCtx struct {
	b      *lang.Node
	inLoop bool // inside a loop of the same function
	inFunc bool
	root   bool
	module bool
}

func collectBlocks(n *lang.Node, c blockCtx, out *[]blockCtx) {
	if n == nil {
		return
	}
	switch n.K {
	case "block":
		c.b = n
		*out = append(*out, c)
		c.root = false
		for _, k := range n.Kids {
			collectBlocks(k, c, out)
		}
	case "for":
		collectBlocks(n.Kids[0], c, out)
		collectBlocks(n.Kids[1], c, out)
		collectBlocks(n.Kids[2], c, out)
		lc := c
		lc.inLoop = true
		collectBlocks(n.Kids[3], lc, out)
	case "forin":
		collectBlocks(n.Kids[0], c, out)
		lc := c
		lc.inLoop = true
		collectBlocks(n.Kids[1], lc, out)
	case "func":
		fc := c
		fc.inLoop, fc.inFunc = false, true
		collectBlocks(n.Kids[0], fc, out)
	case "export":
		// the operand of export is not compiled in main: nothing inside it counts
		if c.module {
			collectBlocks(n.Kids[0], c, out)
		}
	default:
		for _, k := range n.Kids {
			collectBlocks(k, c, out)
		}
	}
}

// InjectScopeError inserts exactly one statically ill-formed statement into
// the main program and returns the class of compile error it must produce
// ("" when nothing suitable was found).
func InjectScopeError(t *rapid.T, p *lang.Program) string {
	var blocks []blockCtx
	collectBlocks(p.Main, blockCtx{root: true}, &blocks)
	if len(blocks) == 0 {
		return ""
	}
	bc := blocks[rapid.IntRange(0, len(blocks)-1).Draw(t, "illBlock")]
	b := bc.b
	pos := rapid.IntRange(0, len(b.Kids)).Draw(t, "illPos")
	insert := func(s *lang.Node) {
		b.Kids = append(b.Kids[:pos], append([]*lang.Node{s}, b.Kids[pos:]...)...)
	}
	kinds := []string{"unresolved", "unresolved-assign", "module-not-found", "assign-builtin"}
	if !bc.inLoop {
		kinds = append(kinds, "break-outside", "continue-outside")
	}
	if !bc.inFunc {
		kinds = append(kinds, "return-outside")
	} else {
		kinds = append(kinds, "export-in-func")
	}
	var defs []int
	for i, k := range b.Kids {
		if k != nil && k.K == "define" {
			defs = append(defs, i)
		}
	}
	if len(defs) > 0 {
		kinds = append(kinds, "redeclared")
	}
	if bc.root {
		kinds = append(kinds, "redeclared-builtin")
	}
	switch k := kinds[rapid.IntRange(0, len(kinds)-1).Draw(t, "illKind")]; k {
	case "unresolved":
		insert(lang.Define("zq_ill", lang.Binary("+", lang.Ident("zq_undefined_name"), lang.Int(1))))
		return "unresolved"
	case "unresolved-assign":
		insert(lang.Assign("=", lang.Ident("zq_undefined_name"), lang.Int(1)))
		return "unresolved"
	case "module-not-found":
		insert(lang.Define("zq_ill", lang.Import("zq_no_such_module")))
		return "module-not-found"
	case "assign-builtin":
		insert(lang.Assign("=", lang.Ident("is_time"), lang.Int(1)))
		return "assign-builtin"
	case "break-outside":
		insert(lang.Break())
		return "break-outside"
	case "continue-outside":
		insert(lang.Continue())
		return "continue-outside"
	case "return-outside":
		insert(lang.Return(lang.Int(1)))
		return "return-outside"
	case "export-in-func":
		insert(lang.Export(lang.Int(1)))
		return "export-in-func"
	case "redeclared":
		i := defs[rapid.IntRange(0, len(defs)-1).Draw(t, "illDef")]
		pos = i + 1 + rapid.IntRange(0, len(b.Kids)-i-1).Draw(t, "illAfter")
		insert(lang.Define(b.Kids[i].S, lang.Int(0)))
		return "redeclared"
	default:
		insert(lang.Define("type_name", lang.Int(0)))
		return "redeclared"
	}
}
