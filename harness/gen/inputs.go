package gen

import (
	"fmt"
	"math"

	"pgregory.net/rapid"

	"verifharness/lang"
)

var inInts = []int64{0, 1, -1, 2, 7, 10, 255, -128, math.MaxInt64, math.MinInt64, 1 << 53, 65}
var inFloats = []float64{0, math.Copysign(0, -1), 1.5, -2.25, 1e21, 1e-7, math.MaxFloat64, 3}
var inStrs = []string{"", "a", "abc", "héllo", "日本語", "a\xffb", "12", "x y z", "\x00"}
var inRunes = []rune{'a', 'Z', 0, 0x4e16, 0x10FFFF, -1, 0xD800}

// Inputs generates 0..4 host input variables (names in0..in3) of every
// runtime type, with nested and shared containers.
func Inputs(t *rapid.T, allowFns, allowTime, allowSpecialFloats bool) map[string]*lang.Val {
	n := rapid.IntRange(0, 4).Draw(t, "nInputs")
	out := map[string]*lang.Val{}
	share := 0
	var pool []*lang.Val // shareable containers
	var gen func(depth int) *lang.Val
	gen = func(depth int) *lang.Val {
		k := rapid.IntRange(0, 19).Draw(t, "inKind")
		if depth <= 0 && k >= 9 && k <= 14 {
			k = k % 9
		}
		switch k {
		case 0, 1:
			return &lang.Val{T: "int", I: inInts[rapid.IntRange(0, len(inInts)-1).Draw(t, "inInt")]}
		case 2:
			f := inFloats[rapid.IntRange(0, len(inFloats)-1).Draw(t, "inFlt")]
			if allowSpecialFloats {
				switch rapid.IntRange(0, 9).Draw(t, "inFltSp") {
				case 0:
					f = math.NaN()
				case 1:
					f = math.Inf(1)
				case 2:
					f = math.Inf(-1)
				}
			}
			return &lang.Val{T: "float", Bits: math.Float64bits(f)}
		case 3, 4:
			return &lang.Val{T: "string", S: []byte(inStrs[rapid.IntRange(0, len(inStrs)-1).Draw(t, "inStr")])}
		case 5:
			return &lang.Val{T: "char", I: int64(inRunes[rapid.IntRange(0, len(inRunes)-1).Draw(t, "inRune")])}
		case 6:
			return &lang.Val{T: "bool", B: rapid.Bool().Draw(t, "inBool")}
		case 7:
			return &lang.Val{T: "bytes", S: []byte(inStrs[rapid.IntRange(0, len(inStrs)-1).Draw(t, "inBytes")])}
		case 8:
			return &lang.Val{T: "undefined"}
		case 9, 10, 11:
			// array (maybe immutable, maybe shared with an earlier one)
			if len(pool) > 0 && rapid.IntRange(0, 3).Draw(t, "reuse") == 0 {
				return pool[rapid.IntRange(0, len(pool)-1).Draw(t, "reuseWhich")]
			}
			share++
			v := &lang.Val{T: "array", Share: share}
			if rapid.IntRange(0, 5).Draw(t, "immA") == 0 {
				v.T = "imm-array"
			}
			m := rapid.IntRange(0, 4).Draw(t, "inArrN")
			for i := 0; i < m; i++ {
				v.Kids = append(v.Kids, gen(depth-1))
			}
			pool = append(pool, v)
			return v
		case 12, 13:
			if len(pool) > 0 && rapid.IntRange(0, 3).Draw(t, "reuseM") == 0 {
				return pool[rapid.IntRange(0, len(pool)-1).Draw(t, "reuseWhichM")]
			}
			share++
			v := &lang.Val{T: "map", Share: share}
			if rapid.IntRange(0, 5).Draw(t, "immM") == 0 {
				v.T = "imm-map"
			}
			m := rapid.IntRange(0, 3).Draw(t, "inMapN")
			keys := []string{"a", "b", "k1", "value", "x y"}
			used := map[string]bool{}
			for i := 0; i < m; i++ {
				k := keys[rapid.IntRange(0, len(keys)-1).Draw(t, "inKey")]
				if used[k] {
					continue
				}
				used[k] = true
				v.Keys = append(v.Keys, k)
				v.Kids = append(v.Kids, gen(depth-1))
			}
			pool = append(pool, v)
			return v
		case 14:
			share++
			id := share
			kid := gen(depth - 1)
			return &lang.Val{T: "error", Share: id, Kids: []*lang.Val{kid}}
		case 15:
			if allowTime {
				if rapid.IntRange(0, 3).Draw(t, "zeroT") == 0 {
					return &lang.Val{T: "time", ZeroT: true}
				}
				return &lang.Val{T: "time", Sec: 1500000000 + int64(rapid.IntRange(0, 100).Draw(t, "inSec")),
					Nsec: int64(rapid.IntRange(0, 1).Draw(t, "inNs")) * 500000000,
					Zone: []int{0, 0, 3600 * 5, -12600}[rapid.IntRange(0, 3).Draw(t, "inZone")]}
			}
			return &lang.Val{T: "int", I: 3}
		case 16, 17:
			if allowFns {
				if rapid.Bool().Draw(t, "fnKind") {
					return &lang.Val{T: "hostfn", Name: []string{"hf_len", "hf_first", "hf_err", "hf_args", "hf_pack", "hf_pack"}[rapid.IntRange(0, 5).Draw(t, "hf")]}
				}
				return &lang.Val{T: "builtin", Name: []string{"len", "string", "type_name", "copy"}[rapid.IntRange(0, 3).Draw(t, "bf")]}
			}
			return &lang.Val{T: "string", S: []byte("fn")}
		default:
			return &lang.Val{T: "int", I: int64(rapid.IntRange(-5, 20).Draw(t, "inSmall"))}
		}
	}
	for i := 0; i < n; i++ {
		out[fmt.Sprintf("in%d", i)] = gen(2)
	}
	return out
}
