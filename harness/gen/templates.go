package gen

import (
	"fmt"
	"strings"

	"verifharness/lang"
)

// templateStmt emits one of the composite shapes the properties single out,
// with generated parameters, so that they are never rare: closures capturing
// and updating variables, closures made in loops, compound assignment through
// captured variables and selectors, variadic + spread, many locals.
func (g *G) templateStmt() *lang.Node {
	g.nameN++
	id := g.nameN
	n := func(s string) string { return fmt.Sprintf("%s%d", s, id) }
	if g.o.StringHeavy && g.chance(700, "tplStr") {
		return g.stringTemplate(id, n)
	}
	if g.chance(220, "tplSlot") {
		return g.slotReuseTemplate(id, n)
	}
	if g.chance(70, "tplTwin") {
		// two function literals that compile to identical instruction bytes
		// (no constants inside), the later one possibly failing when called:
		// whatever merges or caches functions by content shows up in results
		// and in error positions
		g.feat("tpl:twin-functions")
		ta, tb, r := n("twa"), n("twb"), n("twr")
		op := []string{"/", "%", "+", "-", "<"}[g.draw(5, "twinOp")]
		mkf := func(x, y string) *lang.Node {
			return lang.Func([]string{x, y}, false, lang.Block(lang.Return(lang.Binary(op, lang.Ident(x), lang.Ident(y)))))
		}
		a1, a2 := g.intLit(), g.nonZeroInt()
		if g.chance(350, "twinFail") {
			if op == "/" || op == "%" {
				a2 = lang.Int(0)
			} else {
				a2 = lang.Array()
			}
			g.feat("tpl:twin-functions:failing")
		}
		g.declare(&vinfo{name: ta, t: TFn, arity: 2, ptys: []Ty{TInt, TInt}})
		g.declare(&vinfo{name: tb, t: TFn, arity: 2, ptys: []Ty{TInt, TInt}})
		g.declare(&vinfo{name: r, t: TArr, elem: TInt})
		return seq(lang.Define(ta, mkf(n("x"), n("y"))), lang.Define(tb, mkf(n("p"), n("q"))),
			lang.Define(r, lang.Array(lang.Call(lang.Ident(ta), lang.Int(7), lang.Int(2)), lang.Call(lang.Ident(tb), a1, a2))))
	}
	if g.chance(60, "tplMapMut") && g.builtinFree("delete") && g.builtinFree("is_undefined") && !g.o.NoMapIter {
		return g.mapMutationTemplate(n)
	}
	if g.chance(90, "tplMixedRec") {
		return g.mixedRecursionTemplate(n)
	}
	if g.chance(70, "tplCopiedClosure") && g.builtinFree("copy") && !(g.o.ScopeIndep && g.loopDepth > 0 && g.fnDepth == 0) {
		return g.copiedClosureTemplate(n)
	}
	switch g.weighted("template", 6, 6, 5, 5, 4, 3, 4, 3) {
	case 0:
		// counter factory: closure updating a captured variable
		g.feat("tpl:counter-closure")
		mk, c, d, f := n("mk"), n("c"), n("d"), n("cnt")
		op := []string{"+=", "-=", "*="}[g.draw(3, "tplOp")]
		inner := lang.Func([]string{d}, false, lang.Block(
			lang.Assign(op, lang.Ident(c), lang.Ident(d)),
			lang.Return(lang.Ident(c))))
		outer := lang.Func([]string{c}, false, lang.Block(lang.Return(inner)))
		e1, e2, e3 := g.expr(TInt, 1), g.expr(TInt, 1), g.expr(TInt, 1)
		g.declare(&vinfo{name: mk, t: TFn, arity: 1, ptys: []Ty{TInt}})
		g.declare(&vinfo{name: f, t: TFn, arity: 1, ptys: []Ty{TInt}})
		g.declare(&vinfo{name: n("r"), t: TArr, elem: TInt})
		return seq(
			lang.Define(mk, outer),
			lang.Define(f, lang.Call(lang.Ident(mk), e1)),
			lang.Define(n("r"), lang.Array(lang.Call(lang.Ident(f), e2), lang.Call(lang.Ident(f), e3))))
	case 1:
		// closures made in a loop inside a function, capturing the loop-body variable
		g.feat("tpl:closures-in-loop")
		fs, i, x, w := n("fs"), n("i"), n("x"), n("w")
		body := lang.Block(
			lang.Define(fs, lang.Array()),
			lang.For(lang.Define(i, lang.Int(0)), lang.Binary("<", lang.Ident(i), lang.Int(int64(2+g.draw(3, "tplN")))),
				lang.IncDec("++", lang.Ident(i)),
				lang.Block(
					lang.Define(x, lang.Binary("*", lang.Ident(i), lang.Int(int64(1+g.draw(9, "tplMul"))))),
					lang.Assign("=", lang.Ident(fs), lang.Call(lang.Ident("append"), lang.Ident(fs),
						lang.Func(nil, false, lang.Block(lang.Return(lang.Binary("+", lang.Ident(x), lang.Ident(i))))))))),
			lang.Define(w, lang.Array()),
			lang.ForIn("", n("f"), lang.Ident(fs), lang.Block(
				lang.Assign("=", lang.Ident(w), lang.Call(lang.Ident("append"), lang.Ident(w), lang.Call(lang.Ident(n("f"))))))),
			lang.Return(lang.Ident(w)))
		if !g.builtinFree("append") {
			return g.defineStmt()
		}
		wrap := g.fnDepth == 0 && (g.chance(650, "tplInFn") || g.o.ScopeIndep)
		if g.o.ScopeIndep && !wrap {
			return g.defineStmt()
		}
		if wrap {
			name := n("res")
			g.declare(&vinfo{name: name, t: TArr, elem: TInt})
			return lang.Define(name, lang.Call(lang.Func(nil, false, body)))
		}
		// at the current level (top level: one slot per declaration site)
		body.Kids = body.Kids[:len(body.Kids)-1]
		g.declare(&vinfo{name: fs, t: TArr, elem: TFn})
		g.declare(&vinfo{name: w, t: TArr, elem: TInt})
		return seq(body.Kids...)
	case 2:
		// compound assignment through a captured container
		g.feat("tpl:captured-selector-assign")
		st, f := n("st"), n("upd")
		i1, i2, i3, i4 := g.expr(TInt, 1), g.expr(TInt, 1), g.expr(TInt, 1), g.expr(TInt, 1)
		g.declare(&vinfo{name: st, t: TMap, keys: []string{"a", "b"}, elem: TAny})
		g.declare(&vinfo{name: f, t: TFn, arity: 1, ptys: []Ty{TInt}})
		p := n("p")
		fn := lang.Func([]string{p}, false, lang.Block(
			lang.Assign("+=", lang.Sel(lang.Ident(st), "a"), lang.Ident(p)),
			lang.Assign("=", lang.Index(lang.Sel(lang.Ident(st), "b"), lang.Int(0)), lang.Binary("*", lang.Sel(lang.Ident(st), "a"), lang.Int(2))),
			lang.IncDec("++", lang.Index(lang.Sel(lang.Ident(st), "b"), lang.Int(1))),
			lang.Return(lang.Sel(lang.Ident(st), "a"))))
		return seq(
			lang.Define(st, lang.Map([]string{"a", "b"}, []*lang.Node{i1, lang.Array(lang.Int(0), i2)})),
			lang.Define(f, fn),
			lang.ExprStmt(lang.Call(lang.Ident(f), i3)),
			lang.ExprStmt(lang.Call(lang.Ident(f), i4)))
	case 3:
		// variadic + spread
		g.feat("tpl:variadic-spread")
		f, a, r := n("vf"), n("va"), n("vr")
		p1, rest := n("h"), n("rest")
		x1, x2, x3 := g.expr(TAny, 1), g.expr(TAny, 1), g.expr(TAny, 1)
		arr, _ := g.arrLit(2)
		g.declare(&vinfo{name: f, t: TFn, arity: 2, variadic: true, ptys: []Ty{TAny, TArr}})
		g.declare(&vinfo{name: a, t: TArr, elem: TInt})
		g.declare(&vinfo{name: r, t: TArr, elem: TAny})
		body := []*lang.Node{}
		if g.chance(500, "tplSpreadWrite") {
			// the variadic parameter is the callee's own array: writing into
			// it must not show in the array the caller spread
			g.feat("tpl:variadic-spread:callee-writes")
			body = append(body, lang.If(nil, lang.Binary(">", lang.Call(lang.Ident("len"), lang.Ident(rest)), lang.Int(0)),
				lang.Block(lang.Assign("=", lang.Index(lang.Ident(rest), lang.Int(0)), lang.Int(int64(90+g.draw(9, "tplSpreadVal"))))), nil))
		}
		body = append(body, lang.Return(lang.Array(lang.Ident(p1), lang.Call(lang.Ident("len"), lang.Ident(rest)), lang.Ident(rest))))
		fn := lang.Func([]string{p1, rest}, true, lang.Block(body...))
		if !g.builtinFree("len") {
			return g.defineStmt()
		}
		var call *lang.Node
		switch g.draw(4, "tplSpread") {
		case 0:
			call = lang.CallSpread(lang.Ident(f), lang.Ident(a))
		case 1:
			call = lang.CallSpread(lang.Ident(f), x1, lang.Ident(a))
		case 2:
			call = lang.Call(lang.Ident(f), x1)
		default:
			call = lang.Call(lang.Ident(f), x1, x2, x3)
		}
		return seq(lang.Define(f, fn), lang.Define(a, arr), lang.Define(r, call))
	case 4:
		// recursive function with a decreasing counter
		g.feat("tpl:recursion")
		f, k := n("rec"), n("k")
		g.declare(&vinfo{name: f, t: TFn, arity: 1, ptys: []Ty{TInt}, self: false})
		form := g.draw(3, "tplRec")
		var body *lang.Node
		switch form {
		case 0: // non-tail
			body = lang.Block(lang.If(nil, lang.Binary("<=", lang.Ident(k), lang.Int(0)), lang.Block(lang.Return(lang.Int(0))), nil),
				lang.Return(lang.Binary("+", lang.Ident(k), lang.Call(lang.Ident(f), lang.Binary("-", lang.Ident(k), lang.Int(1))))))
		case 1: // tail
			body = lang.Block(lang.If(nil, lang.Binary("<=", lang.Ident(k), lang.Int(0)), lang.Block(lang.Return(lang.Str("done"))), nil),
				lang.Return(lang.Call(lang.Ident(f), lang.Binary("-", lang.Ident(k), lang.Int(1)))))
		default: // through ||
			body = lang.Block(lang.Return(lang.Binary("||", lang.Binary("<=", lang.Ident(k), lang.Int(0)),
				lang.Call(lang.Ident(f), lang.Binary("-", lang.Ident(k), lang.Int(1))))))
		}
		return seq(lang.Define(f, lang.Func([]string{k}, false, body)),
			lang.Define(n("rr"), lang.Call(lang.Ident(f), lang.Int(int64(g.draw(12, "tplDepth"))))))
	case 5:
		// function with many locals
		g.feat("tpl:many-locals")
		cnt := 20 + g.draw(120, "tplLocals")
		if g.chance(200, "tplLocalsBig") {
			cnt = 200 + g.draw(40, "tplLocalsBigN")
		}
		var stmts []*lang.Node
		for i := 0; i < cnt; i++ {
			stmts = append(stmts, lang.Define(fmt.Sprintf("l%d_%d", id, i), lang.Int(int64(i))))
		}
		a, b := g.draw(cnt, "tplLa"), g.draw(cnt, "tplLb")
		stmts = append(stmts, lang.Return(lang.Array(lang.Ident(fmt.Sprintf("l%d_%d", id, a)), lang.Ident(fmt.Sprintf("l%d_%d", id, b)),
			lang.Ident(fmt.Sprintf("l%d_%d", id, cnt-1)), lang.Ident(fmt.Sprintf("l%d_0", id)))))
		name := n("ml")
		g.declare(&vinfo{name: name, t: TArr, elem: TInt})
		return lang.Define(name, lang.Call(lang.Func(nil, false, lang.Block(stmts...))))
	case 6:
		// array aliasing: slices, append, +
		g.feat("tpl:array-aliasing")
		a, b, c := n("aa"), n("ab"), n("ac")
		y1, y2 := g.expr(TInt, 1), g.expr(TInt, 1)
		g.declare(&vinfo{name: a, t: TArr, elem: TInt})
		g.declare(&vinfo{name: b, t: TArr, elem: TInt})
		g.declare(&vinfo{name: c, t: TArr, elem: TInt})
		arr := lang.Array(lang.Int(1), lang.Int(2), lang.Int(3), lang.Int(4))
		var mk *lang.Node
		switch g.draw(4, "tplAlias") {
		case 0:
			mk = lang.Slice(lang.Ident(a), lang.Int(int64(g.draw(2, "tplLo"))), lang.Int(int64(2+g.draw(2, "tplHi"))))
		case 1:
			mk = lang.Binary("+", lang.Ident(a), lang.Array(y1))
		case 2:
			mk = lang.Binary("+", lang.Slice(lang.Ident(a), nil, lang.Int(2)), lang.Array(lang.Int(9)))
		default:
			mk = lang.Ident(a)
		}
		return seq(lang.Define(a, arr), lang.Define(b, mk),
			lang.Assign("=", lang.Index(lang.Ident(b), lang.Int(int64(g.draw(2, "tplWi")))), y2),
			lang.Define(c, lang.Binary("+", lang.Ident(a), lang.Ident(b))))
	default:
		// method-like map of functions sharing state
		g.feat("tpl:object-closures")
		o := n("obj")
		z1, z2 := g.expr(TAny, 1), g.expr(TAny, 1)
		g.declare(&vinfo{name: o, t: TMap, keys: []string{"get", "set"}})
		v := n("s")
		mk := lang.Func([]string{v}, false, lang.Block(lang.Return(lang.Map([]string{"get", "set"}, []*lang.Node{
			lang.Func(nil, false, lang.Block(lang.Return(lang.Ident(v)))),
			lang.Func([]string{n("nv")}, false, lang.Block(lang.Assign("=", lang.Ident(v), lang.Ident(n("nv"))))),
		}))))
		return seq(lang.Define(o, lang.Call(mk, z1)),
			lang.Define(n("g1"), lang.Call(lang.Sel(lang.Ident(o), "get"))),
			lang.ExprStmt(lang.Call(lang.Sel(lang.Ident(o), "set"), z2)),
			lang.Define(n("g2"), lang.Call(lang.Sel(lang.Ident(o), "get"))))
	}
}

// mixedRecursionTemplate emits one function whose direct self calls stand,
// depth by depth, in every position a call can have: `return f(..)` (tail
// call, frame reused), `f(..)` as the last statement (falls off the end:
// undefined), `f(..); return` (statement-form tail call), `f(..)` followed by
// more code, and `return 1 + f(..)` (no tail call). The position taken at each
// depth comes from a literal pattern, so that one activation chain mixes them
// in a generated order.
func (g *G) mixedRecursionTemplate(n func(string) string) *lang.Node {
	g.feat("tpl:mixed-self-recursion")
	f, k, acc, r := n("mr"), n("k"), n("acc"), n("mrr")
	depth := 2 + g.draw(5, "mrDepth")
	pat := make([]int, depth)
	for i := range pat {
		pat[i] = g.draw(5, "mrPos")
	}
	call := func() *lang.Node {
		return lang.Call(lang.Ident(f), lang.Binary("+", lang.Ident(k), lang.Int(1)), lang.Binary("+", lang.Ident(acc), lang.Ident(k)))
	}
	at := func(pos int) *lang.Node {
		var conds *lang.Node
		for i, p := range pat {
			if p != pos {
				continue
			}
			c := lang.Binary("==", lang.Ident(k), lang.Int(int64(i)))
			if conds == nil {
				conds = c
			} else {
				conds = lang.Binary("||", conds, c)
			}
		}
		if conds == nil {
			conds = lang.Bool(false)
		}
		return conds
	}
	base := g.intLit()
	body := lang.Block(
		lang.If(nil, lang.Binary(">=", lang.Ident(k), lang.Int(int64(depth))), lang.Block(lang.Return(lang.Binary("+", lang.Ident(acc), base))), nil),
		lang.If(nil, at(0), lang.Block(lang.Return(call())), nil),
		lang.If(nil, at(1), lang.Block(lang.ExprStmt(call()), lang.Return(nil)), nil),
		lang.If(nil, at(2), lang.Block(lang.Return(lang.Binary("+", lang.Int(1), call()))), nil),
		lang.If(nil, at(3), lang.Block(lang.ExprStmt(call()), lang.Assign("+=", lang.Ident(acc), lang.Int(1)), lang.Return(lang.Ident(acc))), nil),
		lang.ExprStmt(call()))
	g.declare(&vinfo{name: f, t: TFn, arity: 2, ptys: []Ty{TInt, TInt}})
	g.declare(&vinfo{name: r, t: TArr, elem: TAny})
	return seq(lang.Define(f, lang.Func([]string{k, acc}, false, body)),
		lang.Define(r, lang.Array(lang.Call(lang.Ident(f), lang.Int(0), lang.Int(0)), lang.Call(lang.Ident(f), lang.Int(int64(g.draw(depth+1, "mrStart"))), lang.Int(10)))))
}

// mapMutationTemplate: a map is iterated, changed (delete, new key, overwrite,
// both), and iterated again - the second loop must see exactly the map's
// current keys. Loop bodies only count and add (order-independent).
func (g *G) mapMutationTemplate(n func(string) string) *lang.Node {
	g.feat("tpl:map-mutation-between-iterations")
	m, obs := n("mm"), n("mobs")
	allKeys := []string{"a", "b", "c", "d"}
	nk := 2 + g.draw(3, "mmKeys")
	var vals []*lang.Node
	for i := 0; i < nk; i++ {
		vals = append(vals, lang.Int(int64(1+g.draw(9, "mmVal"))))
	}
	loop := func(tag string) []*lang.Node {
		c, sm, k, v := n("mc"+tag), n("ms"+tag), n("mk"+tag), n("mv"+tag)
		g.declare(&vinfo{name: c, t: TInt})
		g.declare(&vinfo{name: sm, t: TInt})
		return []*lang.Node{
			lang.Define(c, lang.Int(0)), lang.Define(sm, lang.Int(0)),
			lang.ForIn(k, v, lang.Ident(m), lang.Block(
				lang.Assign("+=", lang.Ident(c), lang.Int(1)),
				lang.If(nil, lang.Unary("!", lang.Call(lang.Ident("is_undefined"), lang.Ident(v))), lang.Block(lang.Assign("+=", lang.Ident(sm), lang.Ident(v))), nil))),
		}
	}
	del := func() *lang.Node {
		return lang.ExprStmt(lang.Call(lang.Ident("delete"), lang.Ident(m), lang.Str(allKeys[g.draw(nk, "mmDel")])))
	}
	set := func() *lang.Node {
		key := append(append([]string{}, allKeys[:nk]...), "e", "f")[g.draw(nk+2, "mmSet")]
		if g.chance(500, "mmSel") {
			return lang.Assign("=", lang.Sel(lang.Ident(m), key), g.intLit())
		}
		return lang.Assign("=", lang.Index(lang.Ident(m), lang.Str(key)), g.intLit())
	}
	stmts := []*lang.Node{lang.Define(m, lang.Map(allKeys[:nk], vals))}
	stmts = append(stmts, loop("1")...)
	rounds := 1 + g.draw(2, "mmRounds")
	for r := 0; r < rounds; r++ {
		switch g.draw(5, "mmMut") {
		case 0:
			stmts = append(stmts, del())
		case 1:
			stmts = append(stmts, set())
		case 2:
			stmts = append(stmts, del(), set())
		case 3:
			stmts = append(stmts, set(), del())
		default:
			stmts = append(stmts, del(), del())
		}
		stmts = append(stmts, loop(fmt.Sprint(r+2))...)
	}
	g.declare(&vinfo{name: m, t: TMap})
	g.declare(&vinfo{name: obs, t: TInt})
	stmts = append(stmts, lang.Define(obs, lang.Call(lang.Ident("len"), lang.Ident(m))))
	if !g.builtinFree("len") {
		stmts = stmts[:len(stmts)-1]
	}
	return seq(stmts...)
}

// copiedClosureTemplate: a closure updating a captured variable goes through
// copy() - directly or inside a copied array / map - and original, copy and
// the enclosing code then all update and read the variable: the copy of a
// closure shares the captured variables of the original.
func (g *G) copiedClosureTemplate(n func(string) string) *lang.Node {
	g.feat("tpl:copied-closure")
	cv, cf, cg, r := n("cv"), n("cf"), n("cg"), n("ccr")
	d := n("d")
	op := []string{"+=", "-=", "*="}[g.draw(3, "ccOp")]
	fn := lang.Func([]string{d}, false, lang.Block(lang.Assign(op, lang.Ident(cv), lang.Ident(d)), lang.Return(lang.Ident(cv))))
	var cp *lang.Node
	switch g.draw(4, "ccVia") {
	case 0:
		cp = lang.Call(lang.Ident("copy"), lang.Ident(cf))
	case 1:
		cp = lang.Index(lang.Call(lang.Ident("copy"), lang.Array(lang.Int(0), lang.Ident(cf))), lang.Int(1))
	case 2:
		cp = lang.Sel(lang.Call(lang.Ident("copy"), lang.Map([]string{"f"}, []*lang.Node{lang.Ident(cf)})), "f")
	default:
		cp = lang.Index(lang.Index(lang.Call(lang.Ident("copy"), lang.Array(lang.Array(lang.Ident(cf)))), lang.Int(0)), lang.Int(0))
	}
	i0, i1, i2, i3, i4 := g.intLit(), g.intLit(), g.intLit(), g.intLit(), g.intLit()
	stmts := []*lang.Node{
		lang.Define(cv, i0),
		lang.Define(cf, fn),
		lang.Define(cg, cp),
		lang.Define(r, lang.Array(lang.Call(lang.Ident(cf), i1), lang.Call(lang.Ident(cg), i2), lang.Ident(cv))),
		lang.Assign("=", lang.Ident(cv), i3),
		lang.Assign("=", lang.Ident(r), lang.Binary("+", lang.Ident(r), lang.Array(lang.Call(lang.Ident(cg), i4), lang.Call(lang.Ident(cf), lang.Int(1)), lang.Ident(cv)))),
	}
	wrap := g.fnDepth == 0 && g.chance(500, "ccInFn") && !g.o.ScopeIndep
	if wrap {
		// inside a function the variable is a local captured through a
		// free-variable cell rather than a global
		res := n("ccw")
		g.declare(&vinfo{name: res, t: TArr, elem: TInt})
		stmts = append(stmts, lang.Return(lang.Ident(r)))
		return lang.Define(res, lang.Call(lang.Func(nil, false, lang.Block(stmts...))))
	}
	g.declare(&vinfo{name: cv, t: TInt})
	g.declare(&vinfo{name: cf, t: TFn, arity: 1, ptys: []Ty{TInt}})
	g.declare(&vinfo{name: cg, t: TFn, arity: 1, ptys: []Ty{TInt}})
	g.declare(&vinfo{name: r, t: TArr, elem: TInt})
	return seq(stmts...)
}

// seq groups several statements; block() splices them into the enclosing
// statement list.
func seq(xs ...*lang.Node) *lang.Node { return &lang.Node{K: "seq", Kids: xs} }

// stringTemplate emits shapes that grow strings / bytes across the
// configured maximum: += in loops, string(x) of containers, format with
// width, bytes(n), keys made from non-string indexes.
func (g *G) stringTemplate(id int, n func(string) string) *lang.Node {
	if g.chance(120, "strLongLit") {
		// a literal (or map-literal key) around the configured maxima
		g.feat("tpl:long-literal")
		k := []int{30, 31, 32, 33, 63, 64, 65, 99, 100, 101, 999, 1000, 1001}[g.draw(13, "litLen")]
		lit := strings.Repeat("x", k)
		name := n("ll")
		if g.chance(300, "litKey") {
			g.declare(&vinfo{name: name, t: TMap})
			return lang.Define(name, lang.Map([]string{lit}, []*lang.Node{lang.Int(1)}))
		}
		g.declare(&vinfo{name: name, t: TStr})
		return lang.Define(name, lang.Str(lit))
	}
	if g.chance(140, "strConv") && g.builtinFree("bytes") && g.builtinFree("string") {
		// conversions between a string and bytes of a chosen length: the two
		// types have separate maxima, and each conversion checks the target's
		g.feat("tpl:string-bytes-conversion")
		k := []int{0, 1, 19, 20, 21, 22, 31, 32, 33, 39, 40, 41, 63, 64, 65, 99, 100, 101, 119, 120, 121, 999, 1000, 1001}[g.draw(24, "convLen")]
		src, dst := n("cvs"), n("cvd")
		lit := strings.Repeat("y", k)
		switch g.draw(4, "convDir") {
		case 0: // string -> bytes
			g.declare(&vinfo{name: src, t: TStr})
			g.declare(&vinfo{name: dst, t: TBytes})
			return seq(lang.Define(src, lang.Str(lit)), lang.Define(dst, lang.Call(lang.Ident("bytes"), lang.Ident(src))))
		case 1: // bytes -> string
			g.declare(&vinfo{name: src, t: TBytes})
			g.declare(&vinfo{name: dst, t: TStr})
			return seq(lang.Define(src, lang.Call(lang.Ident("bytes"), lang.Int(int64(k)))), lang.Define(dst, lang.Call(lang.Ident("string"), lang.Ident(src))))
		case 2: // bytes -> bytes, string -> string (identity conversions check too)
			g.declare(&vinfo{name: src, t: TBytes})
			g.declare(&vinfo{name: dst, t: TBytes})
			return seq(lang.Define(src, lang.Call(lang.Ident("bytes"), lang.Int(int64(k)))), lang.Define(dst, lang.Call(lang.Ident("bytes"), lang.Ident(src))))
		default: // string built at run time -> bytes, with a fallback value
			g.declare(&vinfo{name: src, t: TStr})
			g.declare(&vinfo{name: dst, t: TBytes})
			half := strings.Repeat("y", k/2)
			return seq(lang.Define(src, lang.Binary("+", lang.Str(half), lang.Str(strings.Repeat("z", k-k/2)))),
				lang.Define(dst, lang.Call(lang.Ident("bytes"), lang.Ident(src), lang.Call(lang.Ident("bytes"), lang.Int(1)))))
		}
	}
	switch g.weighted("strTpl", 6, 4, 4, 3, 3, 3, 3, 4) {
	case 0:
		g.feat("tpl:string-growth-loop")
		s, i := n("s"), n("i")
		piece := g.strLit()
		rounds := int64(1 + g.draw(40, "strRounds"))
		g.declare(&vinfo{name: s, t: TStr})
		return seq(lang.Define(s, g.strLit()),
			lang.For(lang.Define(i, lang.Int(0)), lang.Binary("<", lang.Ident(i), lang.Int(rounds)), lang.IncDec("++", lang.Ident(i)),
				lang.Block(lang.Assign("+=", lang.Ident(s), piece))))
	case 1:
		g.feat("tpl:string-doubling")
		s, i := n("d"), n("i")
		rounds := int64(1 + g.draw(8, "dblRounds"))
		g.declare(&vinfo{name: s, t: TStr})
		return seq(lang.Define(s, lang.Str([]string{"ab", "x", "héé", "0123"}[g.draw(4, "dblSeed")])),
			lang.For(lang.Define(i, lang.Int(0)), lang.Binary("<", lang.Ident(i), lang.Int(rounds)), lang.IncDec("++", lang.Ident(i)),
				lang.Block(lang.Assign("=", lang.Ident(s), lang.Binary("+", lang.Ident(s), lang.Ident(s))))))
	case 2:
		g.feat("tpl:bytes-growth")
		b, i := n("b"), n("i")
		rounds := int64(1 + g.draw(30, "byRounds"))
		if !g.builtinFree("bytes") {
			return g.defineStmt()
		}
		g.declare(&vinfo{name: b, t: TBytes})
		return seq(lang.Define(b, lang.Call(lang.Ident("bytes"), g.strLit())),
			lang.For(lang.Define(i, lang.Int(0)), lang.Binary("<", lang.Ident(i), lang.Int(rounds)), lang.IncDec("++", lang.Ident(i)),
				lang.Block(lang.Assign("+=", lang.Ident(b), lang.Call(lang.Ident("bytes"), lang.Str("xyz"))))))
	case 3:
		g.feat("tpl:string-of-container")
		a, s := n("c"), n("cs")
		if !g.builtinFree("string") || !g.builtinFree("range") {
			return g.defineStmt()
		}
		k := int64(g.draw(40, "contN"))
		g.declare(&vinfo{name: a, t: TArr, elem: TInt})
		g.declare(&vinfo{name: s, t: TStr})
		return seq(lang.Define(a, lang.Call(lang.Ident("range"), lang.Int(0), lang.Int(k))),
			lang.Define(s, lang.Call(lang.Ident("string"), lang.Ident(a))))
	case 4:
		g.feat("tpl:format-width")
		s := n("fw")
		if g.o.NoFormat || !g.builtinFree("format") {
			return g.defineStmt()
		}
		w := []int{1, 8, 16, 30, 31, 32, 33, 34, 60, 63, 64, 65, 66, 98, 99, 100, 101, 102, 200, 999, 1000, 1001}[g.draw(22, "fmtW")]
		g.declare(&vinfo{name: s, t: TStr})
		// left-justified directives write their padding last
		f := []string{"%%%dd", "%%-%ds|", "%%0%dd", "%%-%dd", "%%-%ds", "ab%%-%dd", "%%-%ds", "%%%ds", "%%-%dx"}[g.draw(9, "fmtWF")]
		arg := lang.Int(int64(g.draw(100, "fmtWA")))
		var a *lang.Node = arg
		if strings.HasSuffix(f, "s|") || strings.HasSuffix(f, "ds") {
			a = lang.Str([]string{"ab", "", "12345678"}[g.draw(3, "fmtWS")])
		}
		return lang.Define(s, lang.Call(lang.Ident("format"), lang.Str(fmtSprintf(f, w)), a))
	case 7:
		// verbs that expand a string / bytes operand: the result is 2, 3 or 5
		// times as long as the operand (%x, % x, % #x), or longer by a
		// constant (%q, %#x); the operand length is chosen so that the
		// result lands around the configured maxima
		g.feat("tpl:format-expanding-verb")
		s := n("fx")
		if g.o.NoFormat || !g.builtinFree("format") || !g.builtinFree("bytes") {
			return g.defineStmt()
		}
		verb := []string{"%x", "%X", "% x", "% X", "%#x", "% #x", "%# X", "%q", "%+q", "%#q", "%v", "%5x|", "% #12x", "%-#9X|"}[g.draw(14, "fxVerb")]
		ls := []int{0, 1, 2, 5, 6, 7, 10, 11, 12, 13, 14, 15, 16, 17, 19, 20, 21, 22, 29, 30, 31, 32, 33, 34, 49, 50, 51, 62, 63, 64, 65, 98, 99, 100, 101, 199, 200, 201, 332, 333, 334, 499, 500, 501}
		k := ls[g.draw(len(ls), "fxLen")]
		g.declare(&vinfo{name: s, t: TStr})
		var a *lang.Node = lang.Str(strings.Repeat("k", k))
		if g.chance(400, "fxBytes") {
			a = lang.Call(lang.Ident("bytes"), a)
		}
		return lang.Define(s, lang.Call(lang.Ident("format"), lang.Str(verb), a))
	case 5:
		g.feat("tpl:bytes-n")
		b := n("bn")
		if !g.builtinFree("bytes") {
			return g.defineStmt()
		}
		k := []int64{0, 1, 31, 32, 33, 63, 64, 65, 99, 100, 101, 999, 1000, 1001, 5000}[g.draw(15, "bytesNN")]
		g.declare(&vinfo{name: b, t: TBytes})
		return lang.Define(b, lang.Call(lang.Ident("bytes"), lang.Int(k)))
	default:
		g.feat("tpl:non-string-map-key")
		m := n("km")
		if !g.builtinFree("range") {
			return g.defineStmt()
		}
		k := int64(1 + g.draw(40, "keyN"))
		g.declare(&vinfo{name: m, t: TMap})
		return seq(lang.Define(m, lang.Map(nil, nil)),
			lang.Assign("=", lang.Index(lang.Ident(m), lang.Call(lang.Ident("range"), lang.Int(0), lang.Int(k))), lang.Int(1)))
	}
}

func fmtSprintf(f string, w int) string { return fmt.Sprintf(f, w) }

// slotReuseTemplate: a function body in which a closure captures a
// block-scoped (or loop-iteration, or earlier-call) variable and, after that
// scope has ended, other constructs reuse the same stack slots (self-referencing
// local functions, for-in iterators, plain definitions, nested calls, if/for
// init variables); the closure is called afterwards. Every variable must keep
// its own cell.
func (g *G) slotReuseTemplate(id int, n func(string) string) *lang.Node {
	g.feat("tpl:slot-reuse")
	I, S := lang.Ident, lang.Int
	get, acc, fs := n("get"), n("acc"), n("fs")
	var body []*lang.Node
	body = append(body, lang.Define(get, lang.Undef()), lang.Define(acc, S(0)), lang.Define(fs, lang.Array()))
	for i := g.draw(3, "slotPad"); i > 0; i-- {
		body = append(body, lang.Define(n(fmt.Sprintf("pad%d_", i)), S(int64(i))))
	}
	e1, e2 := g.expr(TInt, 1), g.expr(TInt, 1)
	x, y := n("x"), n("y")
	switch g.draw(4, "slotCapt") {
	case 0: // block-scoped variables captured, then the block ends
		g.feat("tpl:slot-reuse:block")
		blk := []*lang.Node{lang.Define(x, e1), lang.Define(y, e2),
			lang.Assign("=", I(get), lang.Func(nil, false, lang.Block(lang.Return(lang.Array(I(x), I(y))))))}
		if g.chance(500, "slotUpd") {
			blk = append(blk, lang.Assign("+=", I(x), S(1)))
		}
		body = append(body, lang.If(nil, lang.Bool(true), lang.Block(blk...), nil))
	case 1: // one closure per loop iteration over the iteration's variable
		g.feat("tpl:slot-reuse:loop")
		i := n("i")
		loop := []*lang.Node{lang.Define(x, lang.Binary("*", I(i), S(int64(2+g.draw(9, "slotMul")))))}
		if g.chance(500, "slotSelf") {
			// a self-referencing function per iteration
			cnt := n("cnt")
			loop = append(loop, lang.Define(cnt, lang.Func([]string{n("k")}, false, lang.Block(
				lang.If(nil, lang.Binary("==", I(n("k")), S(0)), lang.Block(lang.Return(I(x))), nil),
				lang.Return(lang.Binary("+", lang.Call(I(cnt), lang.Binary("-", I(n("k")), S(1))), S(1)))))),
				lang.Assign("=", I(fs), lang.Call(I("append"), I(fs), I(cnt))))
		} else {
			loop = append(loop, lang.Assign("=", I(fs), lang.Call(I("append"), I(fs),
				lang.Func([]string{n("k")}, false, lang.Block(lang.Return(lang.Binary("+", I(x), I(n("k")))))))))
		}
		body = append(body, lang.For(lang.Define(i, S(0)), lang.Binary("<", I(i), S(int64(2+g.draw(3, "slotIter")))), lang.IncDec("++", I(i)), lang.Block(loop...)))
		body = append(body, lang.Assign("=", I(get), lang.Func(nil, false, lang.Block(lang.Return(S(101))))))
	case 2: // a closure over a local of an earlier call (same stack position later)
		g.feat("tpl:slot-reuse:earlier-call")
		mk := n("mkc")
		body = append(body, lang.Define(mk, lang.Func(nil, false, lang.Block(lang.Define(x, e1), lang.Define(y, e2),
			lang.Return(lang.Func(nil, false, lang.Block(lang.Assign("+=", I(x), S(1)), lang.Return(lang.Array(I(x), I(y))))))))),
			lang.Assign("=", I(get), lang.Call(I(mk))))
	default: // for-in key/value captured, then the loop ends
		g.feat("tpl:slot-reuse:for-in")
		k, v := n("fk"), n("fv")
		body = append(body, lang.ForIn(k, v, lang.Array(e1, e2, S(7)), lang.Block(
			lang.Assign("=", I(fs), lang.Call(I("append"), I(fs), lang.Func([]string{n("k")}, false, lang.Block(lang.Return(lang.Array(I(k), I(v), I(n("k")))))))))),
			lang.Assign("=", I(get), lang.Func(nil, false, lang.Block(lang.Return(S(102))))))
	}
	if !g.builtinFree("append") {
		return g.defineStmt()
	}
	// constructs that reuse the freed slots
	for r := 1 + g.draw(3, "slotReusers"); r > 0; r-- {
		g.nameN++
		m := func(s string) string { return fmt.Sprintf("%s%d_%d", s, id, g.nameN) }
		switch g.draw(9, "slotReuser") {
		case 0:
			f := m("fact")
			body = append(body, lang.Define(f, lang.Func([]string{m("q")}, false, lang.Block(
				lang.Return(lang.Cond(lang.Binary("<=", I(m("q")), S(1)), S(1), lang.Binary("*", I(m("q")), lang.Call(I(f), lang.Binary("-", I(m("q")), S(1))))))))),
				lang.Assign("+=", I(acc), lang.Call(I(f), S(int64(1+g.draw(4, "slotFact"))))))
		case 1:
			var it *lang.Node
			switch g.draw(3, "slotIterKind") {
			case 0:
				it = lang.Array(S(7), S(8), S(9))
			case 1:
				it = lang.Str("ab")
			default:
				it = lang.Map([]string{"k"}, []*lang.Node{S(5)})
			}
			body = append(body, lang.ForIn(m("a"), m("b"), it, lang.Block(lang.Assign("+=", I(acc), S(1)))))
		case 2:
			body = append(body, lang.Define(m("p"), S(1)), lang.Define(m("q"), S(2)), lang.Assign("+=", I(acc), lang.Binary("+", I(m("p")), I(m("q")))))
		case 3:
			body = append(body, lang.If(nil, lang.Bool(true), lang.Block(lang.Define(m("z"), S(5)), lang.Define(m("w"), lang.Binary("+", I(m("z")), S(1))),
				lang.Assign("+=", I(acc), I(m("w")))), nil))
		case 4:
			body = append(body, lang.For(lang.Define(m("j"), S(0)), lang.Binary("<", I(m("j")), S(2)), lang.IncDec("++", I(m("j"))),
				lang.Block(lang.Define(m("t"), I(m("j"))), lang.Assign("+=", I(acc), I(m("t"))))))
		case 5:
			body = append(body, lang.Assign("+=", I(acc), lang.Call(lang.Func(nil, false, lang.Block(lang.Define(m("u"), S(3)),
				lang.Define(m("v"), lang.Binary("*", I(m("u")), S(2))), lang.Return(I(m("v"))))))))
		case 6:
			body = append(body, lang.If(lang.Define(m("t"), S(4)), lang.Binary(">", I(m("t")), S(2)), lang.Block(lang.Assign("+=", I(acc), I(m("t")))), nil))
		case 7:
			body = append(body, lang.Define(m("nv"), S(9)), lang.Define(m("h"), lang.Func(nil, false, lang.Block(lang.Assign("+=", I(m("nv")), S(1)), lang.Return(I(m("nv")))))),
				lang.Assign("+=", I(acc), lang.Call(I(m("h")))))
		default:
			// a function literal referring to itself through its own name, not called recursively
			f := m("selfref")
			body = append(body, lang.Define(f, lang.Func(nil, false, lang.Block(lang.Return(lang.Call(I("is_function"), I(f)))))),
				lang.Assign("=", I(fs), lang.Call(I("append"), I(fs), lang.Func([]string{m("k")}, false, lang.Block(lang.Return(lang.Call(I(f))))))))
		}
	}
	if !g.builtinFree("is_function") {
		return g.defineStmt()
	}
	// observe: the captured values after the slots were reused
	res := n("obs")
	fn := n("fnc")
	body = append(body, lang.Define(res, lang.Array(lang.Call(I(get)), I(acc))),
		lang.ForIn("", fn, I(fs), lang.Block(lang.Assign("=", I(res), lang.Call(I("append"), I(res), lang.Call(I(fn), S(2)))))),
		lang.Return(I(res)))
	name := n("slot")
	g.declare(&vinfo{name: name, t: TArr, elem: TAny})
	return lang.Define(name, lang.Call(lang.Func(nil, false, lang.Block(body...))))
}
