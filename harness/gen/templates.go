package gen

import (
	"fmt"

	"verifharness/lang"
)

// templateStmt emits one of the composite shapes the properties single out,
// with generated parameters, so that they are never rare: closures capturing
// and updating variables, closures made in loops, compound assignment through
// captured variables and selectors, variadic + spread, many locals.
func (g *G) templateStmt() *lang.Node {
	g.nameN++
	id := g.nameN
	n := func(s string) string { return fmt.Sprintf("%s%d", s, id) }
	switch g.weighted("template", 6, 6, 5, 5, 4, 3, 4, 3) {
	case 0:
		// counter factory: closure updating a captured variable
		g.feat("tpl:counter-closure")
		mk, c, d, f := n("mk"), n("c"), n("d"), n("cnt")
		op := []string{"+=", "-=", "*="}[g.draw(3, "tplOp")]
		inner := lang.Func([]string{d}, false, lang.Block(
			lang.Assign(op, lang.Ident(c), lang.Ident(d)),
			lang.Return(lang.Ident(c))))
		outer := lang.Func([]string{c}, false, lang.Block(lang.Return(inner)))
		e1, e2, e3 := g.expr(TInt, 1), g.expr(TInt, 1), g.expr(TInt, 1)
		g.declare(&vinfo{name: mk, t: TFn, arity: 1, ptys: []Ty{TInt}})
		g.declare(&vinfo{name: f, t: TFn, arity: 1, ptys: []Ty{TInt}})
		g.declare(&vinfo{name: n("r"), t: TArr, elem: TInt})
		return seq(
			lang.Define(mk, outer),
			lang.Define(f, lang.Call(lang.Ident(mk), e1)),
			lang.Define(n("r"), lang.Array(lang.Call(lang.Ident(f), e2), lang.Call(lang.Ident(f), e3))))
	case 1:
		// closures made in a loop inside a function, capturing the loop-body variable
		g.feat("tpl:closures-in-loop")
		fs, i, x, w := n("fs"), n("i"), n("x"), n("w")
		body := lang.Block(
			lang.Define(fs, lang.Array()),
			lang.For(lang.Define(i, lang.Int(0)), lang.Binary("<", lang.Ident(i), lang.Int(int64(2+g.draw(3, "tplN")))),
				lang.IncDec("++", lang.Ident(i)),
				lang.Block(
					lang.Define(x, lang.Binary("*", lang.Ident(i), lang.Int(int64(1+g.draw(9, "tplMul"))))),
					lang.Assign("=", lang.Ident(fs), lang.Call(lang.Ident("append"), lang.Ident(fs),
						lang.Func(nil, false, lang.Block(lang.Return(lang.Binary("+", lang.Ident(x), lang.Ident(i))))))))),
			lang.Define(w, lang.Array()),
			lang.ForIn("", n("f"), lang.Ident(fs), lang.Block(
				lang.Assign("=", lang.Ident(w), lang.Call(lang.Ident("append"), lang.Ident(w), lang.Call(lang.Ident(n("f"))))))),
			lang.Return(lang.Ident(w)))
		if !g.builtinFree("append") {
			return g.defineStmt()
		}
		wrap := g.fnDepth == 0 && (g.chance(650, "tplInFn") || g.o.ScopeIndep)
		if g.o.ScopeIndep && !wrap {
			return g.defineStmt()
		}
		if wrap {
			name := n("res")
			g.declare(&vinfo{name: name, t: TArr, elem: TInt})
			return lang.Define(name, lang.Call(lang.Func(nil, false, body)))
		}
		// at the current level (top level: one slot per declaration site)
		body.Kids = body.Kids[:len(body.Kids)-1]
		g.declare(&vinfo{name: fs, t: TArr, elem: TFn})
		g.declare(&vinfo{name: w, t: TArr, elem: TInt})
		return seq(body.Kids...)
	case 2:
		// compound assignment through a captured container
		g.feat("tpl:captured-selector-assign")
		st, f := n("st"), n("upd")
		i1, i2, i3, i4 := g.expr(TInt, 1), g.expr(TInt, 1), g.expr(TInt, 1), g.expr(TInt, 1)
		g.declare(&vinfo{name: st, t: TMap, keys: []string{"a", "b"}, elem: TAny})
		g.declare(&vinfo{name: f, t: TFn, arity: 1, ptys: []Ty{TInt}})
		p := n("p")
		fn := lang.Func([]string{p}, false, lang.Block(
			lang.Assign("+=", lang.Sel(lang.Ident(st), "a"), lang.Ident(p)),
			lang.Assign("=", lang.Index(lang.Sel(lang.Ident(st), "b"), lang.Int(0)), lang.Binary("*", lang.Sel(lang.Ident(st), "a"), lang.Int(2))),
			lang.IncDec("++", lang.Index(lang.Sel(lang.Ident(st), "b"), lang.Int(1))),
			lang.Return(lang.Sel(lang.Ident(st), "a"))))
		return seq(
			lang.Define(st, lang.Map([]string{"a", "b"}, []*lang.Node{i1, lang.Array(lang.Int(0), i2)})),
			lang.Define(f, fn),
			lang.ExprStmt(lang.Call(lang.Ident(f), i3)),
			lang.ExprStmt(lang.Call(lang.Ident(f), i4)))
	case 3:
		// variadic + spread
		g.feat("tpl:variadic-spread")
		f, a, r := n("vf"), n("va"), n("vr")
		p1, rest := n("h"), n("rest")
		x1, x2, x3 := g.expr(TAny, 1), g.expr(TAny, 1), g.expr(TAny, 1)
		arr, _ := g.arrLit(2)
		g.declare(&vinfo{name: f, t: TFn, arity: 2, variadic: true, ptys: []Ty{TAny, TArr}})
		g.declare(&vinfo{name: a, t: TArr, elem: TInt})
		g.declare(&vinfo{name: r, t: TArr, elem: TAny})
		fn := lang.Func([]string{p1, rest}, true, lang.Block(
			lang.Return(lang.Array(lang.Ident(p1), lang.Call(lang.Ident("len"), lang.Ident(rest)), lang.Ident(rest)))))
		if !g.builtinFree("len") {
			return g.defineStmt()
		}
		var call *lang.Node
		switch g.draw(4, "tplSpread") {
		case 0:
			call = lang.CallSpread(lang.Ident(f), lang.Ident(a))
		case 1:
			call = lang.CallSpread(lang.Ident(f), x1, lang.Ident(a))
		case 2:
			call = lang.Call(lang.Ident(f), x1)
		default:
			call = lang.Call(lang.Ident(f), x1, x2, x3)
		}
		return seq(lang.Define(f, fn), lang.Define(a, arr), lang.Define(r, call))
	case 4:
		// recursive function with a decreasing counter
		g.feat("tpl:recursion")
		f, k := n("rec"), n("k")
		g.declare(&vinfo{name: f, t: TFn, arity: 1, ptys: []Ty{TInt}, self: false})
		form := g.draw(3, "tplRec")
		var body *lang.Node
		switch form {
		case 0: // non-tail
			body = lang.Block(lang.If(nil, lang.Binary("<=", lang.Ident(k), lang.Int(0)), lang.Block(lang.Return(lang.Int(0))), nil),
				lang.Return(lang.Binary("+", lang.Ident(k), lang.Call(lang.Ident(f), lang.Binary("-", lang.Ident(k), lang.Int(1))))))
		case 1: // tail
			body = lang.Block(lang.If(nil, lang.Binary("<=", lang.Ident(k), lang.Int(0)), lang.Block(lang.Return(lang.Str("done"))), nil),
				lang.Return(lang.Call(lang.Ident(f), lang.Binary("-", lang.Ident(k), lang.Int(1)))))
		default: // through ||
			body = lang.Block(lang.Return(lang.Binary("||", lang.Binary("<=", lang.Ident(k), lang.Int(0)),
				lang.Call(lang.Ident(f), lang.Binary("-", lang.Ident(k), lang.Int(1))))))
		}
		return seq(lang.Define(f, lang.Func([]string{k}, false, body)),
			lang.Define(n("rr"), lang.Call(lang.Ident(f), lang.Int(int64(g.draw(12, "tplDepth"))))))
	case 5:
		// function with many locals
		g.feat("tpl:many-locals")
		cnt := 20 + g.draw(120, "tplLocals")
		if g.chance(200, "tplLocalsBig") {
			cnt = 200 + g.draw(40, "tplLocalsBigN")
		}
		var stmts []*lang.Node
		for i := 0; i < cnt; i++ {
			stmts = append(stmts, lang.Define(fmt.Sprintf("l%d_%d", id, i), lang.Int(int64(i))))
		}
		a, b := g.draw(cnt, "tplLa"), g.draw(cnt, "tplLb")
		stmts = append(stmts, lang.Return(lang.Array(lang.Ident(fmt.Sprintf("l%d_%d", id, a)), lang.Ident(fmt.Sprintf("l%d_%d", id, b)),
			lang.Ident(fmt.Sprintf("l%d_%d", id, cnt-1)), lang.Ident(fmt.Sprintf("l%d_0", id)))))
		name := n("ml")
		g.declare(&vinfo{name: name, t: TArr, elem: TInt})
		return lang.Define(name, lang.Call(lang.Func(nil, false, lang.Block(stmts...))))
	case 6:
		// array aliasing: slices, append, +
		g.feat("tpl:array-aliasing")
		a, b, c := n("aa"), n("ab"), n("ac")
		y1, y2 := g.expr(TInt, 1), g.expr(TInt, 1)
		g.declare(&vinfo{name: a, t: TArr, elem: TInt})
		g.declare(&vinfo{name: b, t: TArr, elem: TInt})
		g.declare(&vinfo{name: c, t: TArr, elem: TInt})
		arr := lang.Array(lang.Int(1), lang.Int(2), lang.Int(3), lang.Int(4))
		var mk *lang.Node
		switch g.draw(4, "tplAlias") {
		case 0:
			mk = lang.Slice(lang.Ident(a), lang.Int(int64(g.draw(2, "tplLo"))), lang.Int(int64(2+g.draw(2, "tplHi"))))
		case 1:
			mk = lang.Binary("+", lang.Ident(a), lang.Array(y1))
		case 2:
			mk = lang.Binary("+", lang.Slice(lang.Ident(a), nil, lang.Int(2)), lang.Array(lang.Int(9)))
		default:
			mk = lang.Ident(a)
		}
		return seq(lang.Define(a, arr), lang.Define(b, mk),
			lang.Assign("=", lang.Index(lang.Ident(b), lang.Int(int64(g.draw(2, "tplWi")))), y2),
			lang.Define(c, lang.Binary("+", lang.Ident(a), lang.Ident(b))))
	default:
		// method-like map of functions sharing state
		g.feat("tpl:object-closures")
		o := n("obj")
		z1, z2 := g.expr(TAny, 1), g.expr(TAny, 1)
		g.declare(&vinfo{name: o, t: TMap, keys: []string{"get", "set"}})
		v := n("s")
		mk := lang.Func([]string{v}, false, lang.Block(lang.Return(lang.Map([]string{"get", "set"}, []*lang.Node{
			lang.Func(nil, false, lang.Block(lang.Return(lang.Ident(v)))),
			lang.Func([]string{n("nv")}, false, lang.Block(lang.Assign("=", lang.Ident(v), lang.Ident(n("nv"))))),
		}))))
		return seq(lang.Define(o, lang.Call(mk, z1)),
			lang.Define(n("g1"), lang.Call(lang.Sel(lang.Ident(o), "get"))),
			lang.ExprStmt(lang.Call(lang.Sel(lang.Ident(o), "set"), z2)),
			lang.Define(n("g2"), lang.Call(lang.Sel(lang.Ident(o), "get"))))
	}
}

// seq groups several statements; block() splices them into the enclosing
// statement list.
func seq(xs ...*lang.Node) *lang.Node { return &lang.Node{K: "seq", Kids: xs} }
