module verifharness

go 1.23

require (
	github.com/d5/tengo/v2 v2.0.0
	pgregory.net/rapid v1.3.0
)

replace github.com/d5/tengo/v2 => /repo
