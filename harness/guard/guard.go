// Package guard uses the VM probe hook to keep in-process campaigns alive:
// it aborts a run right before an operation that the properties exclude and
// that would otherwise take the test process down (creation of a cyclic
// container - open finding F10 -, an unbounded single allocation, a traversal
// of a value whose expansion as a tree is huge because parts of it are shared
// many times), and it
// enforces an instruction budget. Aborted cases are counted, never judged.
package guard

import (
	"errors"
	"math"
	"sync/atomic"
	"unsafe"

	"github.com/d5/tengo/v2"
	"github.com/d5/tengo/v2/parser"
	"github.com/d5/tengo/v2/token"
)

func init() {
	if parser.OpCall != opCall || parser.OpSetSelGlobal != opSetSelGlobal || parser.OpSetSelLocal != opSetSelLocal ||
		parser.OpSetSelFree != opSetSelFree || parser.OpBinaryOp != opBinaryOp || int(token.Add) != tokAdd {
		panic("guard: opcode/token numbering changed; update harness/guard")
	}
}

// opcodes the guard looks at (parser/opcodes.go order)
const (
	opCall         = 20
	opSetSelGlobal = 24
	opSetSelLocal  = 28
	opSetSelFree   = 33
	opBinaryOp     = 40
	opEqual        = parser.OpEqual
	opNotEqual     = parser.OpNotEqual
	tokAdd         = 11 // token.Add, checked at init
)

// State of one guarded run.
type State struct {
	Budget      int64
	MaxElems    int  // arrays larger than this are "unbounded allocations"
	NoCycleStop bool // do not stop before a cyclic container is created (sacrificial processes only)
	MaxTree     float64 // values whose expansion as a tree (shared parts counted once per reference) exceeds this are "unbounded allocations" for every operation that traverses them; 0 = 1<<18
	steps       int64
	reason      atomic.Value // string
	Stopped     int32
}

// Reason returns why the run was stopped ("" if it was not).
func (s *State) Reason() string {
	r, _ := s.reason.Load().(string)
	return r
}

// Steps returns the number of dispatched instructions.
func (s *State) Steps() int64 { return atomic.LoadInt64(&s.steps) }

// ErrStopped is the panic value with which the guard stops the VM goroutine
// before the current instruction executes (RunContext recovers it and
// returns it as the run's error).
var ErrStopped = errors.New("verif guard: run stopped before an excluded operation")

func (s *State) stop(v *tengo.VM, why string) {
	if atomic.CompareAndSwapInt32(&s.Stopped, 0, 1) {
		s.reason.Store(why)
	}
	v.Abort()
	if why != "budget" {
		// Abort only takes effect at the next dispatch; the excluded
		// operation must not execute at all
		panic(ErrStopped)
	}
}

// Install sets the process-wide probe; call the returned func to remove it.
func Install(s *State) func() {
	if s.MaxElems == 0 {
		s.MaxElems = 1 << 20
	}
	if s.MaxTree == 0 {
		s.MaxTree = 1 << 18
	}
	tengo.VerifSetProbe(func(v *tengo.VM) { s.probe(v) })
	return func() { tengo.VerifSetProbe(nil) }
}

func (s *State) probe(v *tengo.VM) {
	n := atomic.AddInt64(&s.steps, 1)
	if s.Budget > 0 && n > s.Budget {
		s.stop(v, "budget")
		return
	}
	fn, ip, sp, bp, _ := v.VerifState()
	code := fn.Instructions
	if ip < 0 || ip >= len(code) {
		return
	}
	switch code[ip] {
	case opSetSelGlobal:
		if ip+3 >= len(code) {
			return
		}
		idx := int(code[ip+1])<<8 | int(code[ip+2])
		nsel := int(code[ip+3])
		s.checkStore(v, v.VerifGlobalAt(idx), v.VerifStackAt(sp-nsel-1))
	case opSetSelLocal:
		if ip+2 >= len(code) {
			return
		}
		idx := int(code[ip+1])
		nsel := int(code[ip+2])
		root := v.VerifStackAt(bp + idx)
		if p, ok := root.(*tengo.ObjectPtr); ok && p.Value != nil {
			root = *p.Value
		}
		s.checkStore(v, root, v.VerifStackAt(sp-nsel-1))
	case opSetSelFree:
		if ip+2 >= len(code) {
			return
		}
		idx := int(code[ip+1])
		nsel := int(code[ip+2])
		s.checkStore(v, v.VerifFreeAt(idx), v.VerifStackAt(sp-nsel-1))
	case opCall:
		if ip+2 >= len(code) {
			return
		}
		nargs := int(code[ip+1])
		callee := v.VerifStackAt(sp - 1 - nargs)
		if _, compiled := callee.(*tengo.CompiledFunction); !compiled {
			// native code may render, copy or compare its arguments as trees
			for i := 0; i < nargs; i++ {
				if s.tooBig(v.VerifStackAt(sp - nargs + i)) {
					s.stop(v, "unbounded-allocation")
					return
				}
			}
		}
		b, ok := callee.(*tengo.BuiltinFunction)
		if !ok {
			return
		}
		switch b.Name {
		case "splice":
			if nargs >= 4 {
				arr := v.VerifStackAt(sp - nargs)
				for i := 3; i < nargs; i++ {
					if !s.NoCycleStop && s.mayCycle(arr, v.VerifStackAt(sp-nargs+i)) {
						s.stop(v, "cyclic")
						return
					}
				}
			}
		case "range":
			if nargs >= 2 {
				a, ok1 := v.VerifStackAt(sp - nargs).(*tengo.Int)
				z, ok2 := v.VerifStackAt(sp - nargs + 1).(*tengo.Int)
				step := int64(1)
				if nargs >= 3 {
					if st, ok := v.VerifStackAt(sp - nargs + 2).(*tengo.Int); ok {
						step = st.Value
					}
				}
				if ok1 && ok2 && step > 0 {
					span := float64(z.Value) - float64(a.Value)
					if span < 0 {
						span = -span
					}
					if span/float64(step) > float64(s.MaxElems) {
						s.stop(v, "unbounded-allocation")
					}
				}
			}
		}
	case opEqual, opNotEqual:
		// Equals compares shared parts once per reference
		if s.tooBig(v.VerifStackAt(sp-2)) && s.tooBig(v.VerifStackAt(sp-1)) {
			s.stop(v, "unbounded-allocation")
			return
		}
	case opBinaryOp:
		// "" + x renders x
		if s.tooBig(v.VerifStackAt(sp-2)) || s.tooBig(v.VerifStackAt(sp-1)) {
			s.stop(v, "unbounded-allocation")
			return
		}
		if ip+1 < len(code) && code[ip+1] == tokAdd {
			l, r := v.VerifStackAt(sp-2), v.VerifStackAt(sp-1)
			if seqLen(l)+seqLen(r) > s.MaxElems {
				s.stop(v, "unbounded-allocation")
			}
		}
	}
}

// TreeSize is the number of nodes of o expanded as a tree: a part shared by
// k references counts k times (what String, Copy, Equals and the host-side
// conversions traverse), computed in time linear in the number of distinct
// containers. A self-containing value has infinite size.
func TreeSize(o tengo.Object) float64 {
	if !isContainer(o) {
		return 1
	}
	return treeSize(o, map[tengo.Object]float64{}, map[tengo.Object]bool{})
}

// tooBig: the guard's use of TreeSize. Runs that are allowed to build
// self-containing values (NoCycleStop) only apply operations that do not
// traverse them, and are not judged by tree size.
func (s *State) tooBig(o tengo.Object) bool {
	return !s.NoCycleStop && TreeSize(o) > s.MaxTree
}

func treeSize(o tengo.Object, memo map[tengo.Object]float64, onPath map[tengo.Object]bool) float64 {
	if o == nil || !isContainer(o) {
		return 1
	}
	if onPath[o] {
		return math.Inf(1)
	}
	if n, ok := memo[o]; ok {
		return n
	}
	onPath[o] = true
	n := 1.0
	each(o, func(e tengo.Object) { n += treeSize(e, memo, onPath) })
	delete(onPath, o)
	memo[o] = n
	return n
}

func seqLen(o tengo.Object) int {
	switch x := o.(type) {
	case *tengo.Array:
		return len(x.Value)
	case *tengo.ImmutableArray:
		return len(x.Value)
	}
	return 0
}

func (s *State) checkStore(v *tengo.VM, root, val tengo.Object) {
	if !s.NoCycleStop && s.mayCycle(root, val) {
		s.stop(v, "cyclic")
	}
}

// mayCycle reports (conservatively) whether storing val somewhere inside root
// could make a container reachable from itself: some container reachable from
// val is also reachable from root.
func (s *State) mayCycle(root, val tengo.Object) bool {
	if !isContainer(val) {
		return false
	}
	fromVal := map[tengo.Object]bool{}
	collect(val, fromVal, 0)
	if len(fromVal) == 0 {
		return false
	}
	// arrays are views: two array objects over one backing array alias each
	// other's elements, so storage ranges count as well as object identity
	var ranges [][2]uintptr
	for o := range fromVal {
		if r, ok := storage(o); ok {
			ranges = append(ranges, r)
		}
	}
	hit := false
	seen := map[tengo.Object]bool{}
	var walk func(o tengo.Object, d int)
	walk = func(o tengo.Object, d int) {
		if hit || o == nil || d > 500 || len(seen) > 20000 {
			return
		}
		if !isContainer(o) || seen[o] {
			return
		}
		seen[o] = true
		if fromVal[o] {
			hit = true
			return
		}
		if r, ok := storage(o); ok {
			for _, q := range ranges {
				if r[0] < q[1] && q[0] < r[1] {
					hit = true
					return
				}
			}
		}
		each(o, func(e tengo.Object) { walk(e, d+1) })
	}
	walk(root, 0)
	return hit
}

// storage returns the address range of an array's backing storage
// (including spare capacity).
func storage(o tengo.Object) ([2]uintptr, bool) {
	var v []tengo.Object
	switch x := o.(type) {
	case *tengo.Array:
		v = x.Value
	case *tengo.ImmutableArray:
		v = x.Value
	default:
		return [2]uintptr{}, false
	}
	if cap(v) == 0 {
		return [2]uintptr{}, false
	}
	full := v[:cap(v)]
	start := uintptr(unsafe.Pointer(&full[0]))
	return [2]uintptr{start, start + uintptr(cap(v))*unsafe.Sizeof(full[0])}, true
}

func isContainer(o tengo.Object) bool {
	switch o.(type) {
	case *tengo.Array, *tengo.ImmutableArray, *tengo.Map, *tengo.ImmutableMap, *tengo.Error:
		return true
	}
	return false
}

func each(o tengo.Object, f func(tengo.Object)) {
	switch x := o.(type) {
	case *tengo.Array:
		for _, e := range x.Value {
			f(e)
		}
	case *tengo.ImmutableArray:
		for _, e := range x.Value {
			f(e)
		}
	case *tengo.Map:
		for _, e := range x.Value {
			f(e)
		}
	case *tengo.ImmutableMap:
		for _, e := range x.Value {
			f(e)
		}
	case *tengo.Error:
		f(x.Value)
	}
}

func collect(o tengo.Object, set map[tengo.Object]bool, d int) {
	if o == nil || d > 500 || len(set) > 20000 || !isContainer(o) || set[o] {
		return
	}
	set[o] = true
	each(o, func(e tengo.Object) { collect(e, set, d+1) })
}
