// Package lang is the harness's own representation of tengo programs: a
// uniform, JSON-serialisable AST (never tengo's parser types), a renderer to
// source text, and a static resolver implementing the documented lexical
// scoping rules. It does not import package tengo.
package lang

import "encoding/json"

// Node kinds.
//
// Expressions:
//
//	int(I) float(F) char(I) string(Bs) bool(B) undefined ident(S)
//	array(Kids) map(Keys,Kids) unary(S,Kids[0]) binary(S,Kids[0],Kids[1])  (S incl. && ||)
//	cond(Kids[0..2]) index(Kids[0],Kids[1]) selector(Kids[0],S)
//	slice(Kids[0],lo?,hi?) call(Kids[0]=callee,args...; B=spread last)
//	func(Params,B=variadic,Kids[0]=block) error(Kids[0]) immutable(Kids[0]) import(S)
//
// Statements:
//
//	define(S,Kids[0]) assign(S=op,Kids[0]=lhs,Kids[1]=rhs) incdec(S,Kids[0])
//	exprstmt(Kids[0]) if(init?,cond,then,else?) for(init?,cond?,post?,body)
//	forin(S=key,S2=value,Kids[0]=iterable,Kids[1]=body) break continue
//	return(Kids[0]?) export(Kids[0]) block(Kids)
type Node struct {
	K      string   `json:"k"`
	S      string   `json:"s,omitempty"`
	S2     string   `json:"s2,omitempty"`
	I      int64    `json:"i,omitempty"`
	F      float64  `json:"f,omitempty"`
	B      bool     `json:"b,omitempty"`
	Bs     []byte   `json:"bs,omitempty"`
	Lit    string   `json:"lit,omitempty"` // optional literal spelling
	Params []string `json:"params,omitempty"`
	Keys   []string `json:"keys,omitempty"`
	Kids   []*Node  `json:"kids,omitempty"`

	// filled by Resolve (not serialised)
	Ref  *Decl   `json:"-"` // ident / define / forin-key: the declaration it denotes
	Ref2 *Decl   `json:"-"` // forin value
	Free []*Decl `json:"-"` // func: captured declarations
	PD   []*Decl `json:"-"` // func: parameter declarations
	ID   int     `json:"-"` // unique per node after Resolve
	Line int     `json:"-"` // first line when rendered by RenderProgram (1-based)
	End  int     `json:"-"` // last line
}

// Program is a main body plus optional source modules and host inputs.
type Program struct {
	Main    *Node            `json:"main"`              // block
	Modules map[string]*Node `json:"modules,omitempty"` // name -> block
	// MinParens: the checks that honour it (C01) render this program with
	// RenderMin - the grouping of operator chains is then left to the parser
	MinParens bool `json:"min_parens,omitempty"`
}

// Clone deep-copies a node tree (resolver annotations are dropped).
func (n *Node) Clone() *Node {
	if n == nil {
		return nil
	}
	c := *n
	c.Ref, c.Ref2, c.Free, c.PD = nil, nil, nil, nil
	c.Params = append([]string(nil), n.Params...)
	c.Keys = append([]string(nil), n.Keys...)
	c.Bs = append([]byte(nil), n.Bs...)
	c.Kids = make([]*Node, len(n.Kids))
	for i, k := range n.Kids {
		c.Kids[i] = k.Clone()
	}
	return &c
}

// Clone deep-copies a program.
func (p *Program) Clone() *Program {
	q := &Program{Main: p.Main.Clone()}
	if p.Modules != nil {
		q.Modules = map[string]*Node{}
		for k, v := range p.Modules {
			q.Modules[k] = v.Clone()
		}
	}
	return q
}

// JSON renders the program for replay files.
func (p *Program) JSON() json.RawMessage {
	b, _ := json.Marshal(p)
	return b
}

// constructors

func Int(i int64) *Node      { return &Node{K: "int", I: i} }
func Float(f float64) *Node  { return &Node{K: "float", F: f} }
func Char(r rune) *Node      { return &Node{K: "char", I: int64(r)} }
func Str(s string) *Node     { return &Node{K: "string", Bs: []byte(s)} }
func Bool(b bool) *Node      { return &Node{K: "bool", B: b} }
func Undef() *Node           { return &Node{K: "undefined"} }
func Ident(name string) *Node { return &Node{K: "ident", S: name} }
func Array(xs ...*Node) *Node { return &Node{K: "array", Kids: xs} }
func Map(keys []string, vals []*Node) *Node {
	return &Node{K: "map", Keys: keys, Kids: vals}
}
func Unary(op string, x *Node) *Node     { return &Node{K: "unary", S: op, Kids: []*Node{x}} }
func Binary(op string, a, b *Node) *Node { return &Node{K: "binary", S: op, Kids: []*Node{a, b}} }
func Cond(c, a, b *Node) *Node           { return &Node{K: "cond", Kids: []*Node{c, a, b}} }
func Index(x, i *Node) *Node             { return &Node{K: "index", Kids: []*Node{x, i}} }
func Sel(x *Node, name string) *Node     { return &Node{K: "selector", S: name, Kids: []*Node{x}} }
func Slice(x, lo, hi *Node) *Node        { return &Node{K: "slice", Kids: []*Node{x, lo, hi}} }
func Call(f *Node, args ...*Node) *Node {
	return &Node{K: "call", Kids: append([]*Node{f}, args...)}
}
func CallSpread(f *Node, args ...*Node) *Node {
	return &Node{K: "call", B: true, Kids: append([]*Node{f}, args...)}
}
func Func(params []string, variadic bool, body *Node) *Node {
	return &Node{K: "func", Params: params, B: variadic, Kids: []*Node{body}}
}
func ErrorE(x *Node) *Node     { return &Node{K: "error", Kids: []*Node{x}} }
func Immutable(x *Node) *Node  { return &Node{K: "immutable", Kids: []*Node{x}} }
func Import(name string) *Node { return &Node{K: "import", S: name} }

func Define(name string, rhs *Node) *Node { return &Node{K: "define", S: name, Kids: []*Node{rhs}} }
func Assign(op string, lhs, rhs *Node) *Node {
	return &Node{K: "assign", S: op, Kids: []*Node{lhs, rhs}}
}
func IncDec(op string, lhs *Node) *Node { return &Node{K: "incdec", S: op, Kids: []*Node{lhs}} }
func ExprStmt(x *Node) *Node            { return &Node{K: "exprstmt", Kids: []*Node{x}} }
func If(init, cond, then, els *Node) *Node {
	return &Node{K: "if", Kids: []*Node{init, cond, then, els}}
}
func For(init, cond, post, body *Node) *Node {
	return &Node{K: "for", Kids: []*Node{init, cond, post, body}}
}
func ForIn(key, value string, iter, body *Node) *Node {
	return &Node{K: "forin", S: key, S2: value, Kids: []*Node{iter, body}}
}
func Break() *Node           { return &Node{K: "break"} }
func Continue() *Node        { return &Node{K: "continue"} }
func Return(x *Node) *Node   { return &Node{K: "return", Kids: []*Node{x}} }
func Export(x *Node) *Node   { return &Node{K: "export", Kids: []*Node{x}} }
func Block(xs ...*Node) *Node { return &Node{K: "block", Kids: xs} }

// IsExpr reports whether the node kind is an expression.
func (n *Node) IsExpr() bool {
	switch n.K {
	case "int", "float", "char", "string", "bool", "undefined", "ident", "array", "map",
		"unary", "binary", "cond", "index", "selector", "slice", "call", "func", "error",
		"immutable", "import":
		return true
	}
	return false
}

// Walk visits n and all descendants in pre-order; nil kids are skipped.
func Walk(n *Node, f func(*Node) bool) {
	if n == nil {
		return
	}
	if !f(n) {
		return
	}
	for _, k := range n.Kids {
		Walk(k, f)
	}
}

// Count returns the number of nodes satisfying pred.
func Count(n *Node, pred func(*Node) bool) int {
	c := 0
	Walk(n, func(x *Node) bool {
		if pred(x) {
			c++
		}
		return true
	})
	return c
}
