package lang

import (
	"fmt"
	"math"
	"regexp"
	"strconv"
	"strings"
)

var identRe = regexp.MustCompile(`^[A-Za-z_][A-Za-z0-9_]*$`)

var keywords = map[string]bool{"break": true, "continue": true, "else": true, "for": true, "func": true,
	"error": true, "immutable": true, "if": true, "return": true, "export": true, "true": true,
	"false": true, "in": true, "undefined": true, "import": true}

// IsPlainIdent reports whether s can be written as a bare identifier.
func IsPlainIdent(s string) bool { return identRe.MatchString(s) && !keywords[s] }

type renderer struct {
	sb   strings.Builder
	line int
	ind  int
	min  bool // binary operands of a binary operator get parentheses only where the documented precedence and left associativity require them
	hdr  int // >0 while rendering an if/for header: map literals get parentheses (a func literal must not: `x := (func() {..})` does not make x visible inside the literal, `x := func() {..}` does)
}

func (r *renderer) header(e *Node) {
	r.hdr++
	r.expr(e, false)
	r.hdr--
}

// leftmost returns the node whose text starts the rendering of e.
func (r *renderer) leftmost(e *Node) *Node {
	for {
		switch e.K {
		case "binary", "cond", "index", "selector", "slice", "call":
			if needsParens(e.Kids[0]) && !(e.K == "binary" && r.bare(e, 0)) {
				return e // starts with "("
			}
			e = e.Kids[0]
		default:
			return e
		}
	}
}

// Render renders a block as a sequence of statements, one per line, and
// records Line/End (1-based) on every statement node.
func Render(block *Node) string {
	r := &renderer{line: 1}
	r.stmts(block.Kids)
	return r.sb.String()
}

// RenderMin is Render with binary operands of binary operators parenthesised
// only where the documented grouping (docs/tutorial.md: five levels, all left
// associative) differs from the tree: the text then means the tree only if the
// parser groups as documented.
func RenderMin(block *Node) string {
	r := &renderer{line: 1, min: true}
	r.stmts(block.Kids)
	return r.sb.String()
}

// binPrec: the documented precedence of the binary operators.
var binPrec = map[string]int{
	"*": 5, "/": 5, "%": 5, "<<": 5, ">>": 5, "&": 5, "&^": 5,
	"+": 4, "-": 4, "|": 4, "^": 4,
	"==": 3, "!=": 3, "<": 3, "<=": 3, ">": 3, ">=": 3,
	"&&": 2, "||": 1,
}

// bare reports whether operand i (0 left, 1 right) of the binary node e is
// itself a binary node that needs no parentheses.
func (r *renderer) bare(e *Node, i int) bool {
	k := e.Kids[i]
	if !r.min || k.K != "binary" {
		return false
	}
	pe, pk := binPrec[e.S], binPrec[k.S]
	if pe == 0 || pk == 0 {
		return false
	}
	return pk > pe || (i == 0 && pk == pe)
}

// RenderExpr renders one expression on one line.
func RenderExpr(e *Node) string {
	r := &renderer{line: 1}
	r.expr(e, false)
	return r.sb.String()
}

func (r *renderer) w(s string) {
	r.sb.WriteString(s)
	r.line += strings.Count(s, "\n")
}

func (r *renderer) nl() {
	r.w("\n")
}

func (r *renderer) indent() {
	for i := 0; i < r.ind; i++ {
		r.w("\t")
	}
}

func (r *renderer) stmts(xs []*Node) {
	for _, s := range xs {
		if s == nil {
			continue
		}
		r.indent()
		s.Line = r.line
		r.stmt(s)
		s.End = r.line
		r.nl()
	}
}

func (r *renderer) block(b *Node) {
	r.w("{")
	if b != nil && len(b.Kids) > 0 {
		r.nl()
		r.ind++
		r.stmts(b.Kids)
		r.ind--
		r.indent()
	}
	r.w("}")
}

// simple statement (no trailing newline), used for init/post positions too
func (r *renderer) stmt(s *Node) {
	switch s.K {
	case "define":
		r.w(s.S + " := ")
		r.expr(s.Kids[0], false)
	case "assign":
		r.expr(s.Kids[0], false)
		r.w(" " + s.S + " ")
		r.expr(s.Kids[1], false)
	case "incdec":
		r.expr(s.Kids[0], false)
		r.w(s.S)
	case "exprstmt":
		if lm := r.leftmost(s.Kids[0]); lm.K == "map" || lm.K == "func" {
			r.w("(")
			r.expr(s.Kids[0], false)
			r.w(")")
		} else {
			r.expr(s.Kids[0], false)
		}
	case "if":
		r.w("if ")
		if s.Kids[0] != nil {
			s.Kids[0].Line = r.line
			r.hdr++
			r.stmt(s.Kids[0])
			r.hdr--
			s.Kids[0].End = r.line
			r.w("; ")
		}
		r.header(s.Kids[1])
		r.w(" ")
		r.block(s.Kids[2])
		if s.Kids[3] != nil {
			r.w(" else ")
			if s.Kids[3].K == "if" {
				s.Kids[3].Line = r.line
				r.stmt(s.Kids[3])
				s.Kids[3].End = r.line
			} else {
				r.block(s.Kids[3])
			}
		}
	case "for":
		r.w("for ")
		init, cond, post := s.Kids[0], s.Kids[1], s.Kids[2]
		if init != nil || post != nil {
			if init != nil {
				init.Line = r.line
				r.hdr++
				r.stmt(init)
				r.hdr--
				init.End = r.line
			}
			r.w("; ")
			if cond != nil {
				r.header(cond)
			}
			r.w("; ")
			if post != nil {
				post.Line = r.line
				r.hdr++
				r.stmt(post)
				r.hdr--
				post.End = r.line
			}
			r.w(" ")
		} else if cond != nil {
			r.header(cond)
			r.w(" ")
		}
		r.block(s.Kids[3])
	case "forin":
		r.w("for ")
		if s.S != "" {
			r.w(s.S + ", ")
		}
		r.w(s.S2 + " in ")
		r.header(s.Kids[0])
		r.w(" ")
		r.block(s.Kids[1])
	case "break":
		r.w("break")
	case "continue":
		r.w("continue")
	case "return":
		r.w("return")
		if s.Kids[0] != nil {
			r.w(" ")
			r.expr(s.Kids[0], false)
		}
	case "export":
		r.w("export ")
		r.expr(s.Kids[0], false)
	case "block":
		r.block(s)
	default:
		panic("lang.Render: unknown statement kind " + s.K)
	}
}

func needsParens(e *Node) bool {
	switch e.K {
	case "binary", "unary", "cond", "func":
		return true
	}
	return false
}

// expr renders e; when operand is true the expression is an operand of an
// operator / base of a postfix form and gets parentheses if compound.
func (r *renderer) expr(e *Node, operand bool) {
	if (operand && needsParens(e)) || (r.hdr > 0 && e.K == "map") {
		r.w("(")
		h := r.hdr
		r.hdr = 0
		r.expr(e, false)
		r.hdr = h
		r.w(")")
		return
	}
	switch e.K {
	case "int":
		if e.Lit != "" {
			r.w(e.Lit)
		} else {
			if e.I < 0 {
				panic("lang.Render: negative int literal node")
			}
			r.w(strconv.FormatInt(e.I, 10))
		}
	case "float":
		if e.Lit != "" {
			r.w(e.Lit)
		} else {
			r.w(FloatLit(e.F))
		}
	case "char":
		r.w(strconv.QuoteRune(rune(e.I)))
	case "string":
		if e.Lit != "" {
			r.w(e.Lit)
		} else {
			r.w(strconv.Quote(string(e.Bs)))
		}
	case "bool":
		if e.B {
			r.w("true")
		} else {
			r.w("false")
		}
	case "undefined":
		r.w("undefined")
	case "ident":
		r.w(e.S)
	case "array":
		r.w("[")
		for i, k := range e.Kids {
			if i > 0 {
				r.w(", ")
			}
			r.expr(k, false)
		}
		r.w("]")
	case "map":
		r.w("{")
		for i, k := range e.Kids {
			if i > 0 {
				r.w(", ")
			}
			if IsPlainIdent(e.Keys[i]) {
				r.w(e.Keys[i])
			} else {
				r.w(strconv.Quote(e.Keys[i]))
			}
			r.w(": ")
			r.expr(k, false)
		}
		r.w("}")
	case "unary":
		r.w(e.S)
		r.expr(e.Kids[0], true)
	case "binary":
		r.expr(e.Kids[0], !r.bare(e, 0))
		r.w(" " + e.S + " ")
		r.expr(e.Kids[1], !r.bare(e, 1))
	case "cond":
		r.expr(e.Kids[0], true)
		r.w(" ? ")
		r.expr(e.Kids[1], true)
		r.w(" : ")
		r.expr(e.Kids[2], true)
	case "index":
		r.postfixBase(e.Kids[0])
		r.w("[")
		r.expr(e.Kids[1], false)
		r.w("]")
	case "selector":
		r.postfixBase(e.Kids[0])
		r.w("." + e.S)
	case "slice":
		r.postfixBase(e.Kids[0])
		r.w("[")
		if e.Kids[1] != nil {
			r.expr(e.Kids[1], false)
		}
		r.w(":")
		if e.Kids[2] != nil {
			r.expr(e.Kids[2], false)
		}
		r.w("]")
	case "call":
		r.postfixBase(e.Kids[0])
		r.w("(")
		for i, a := range e.Kids[1:] {
			if i > 0 {
				r.w(", ")
			}
			r.expr(a, false)
		}
		if e.B {
			r.w("...")
		}
		r.w(")")
	case "func":
		r.w("func(")
		for i, p := range e.Params {
			if i > 0 {
				r.w(", ")
			}
			if e.B && i == len(e.Params)-1 {
				r.w("...")
			}
			r.w(p)
		}
		r.w(") ")
		r.block(e.Kids[0])
	case "error":
		r.w("error(")
		r.expr(e.Kids[0], false)
		r.w(")")
	case "immutable":
		r.w("immutable(")
		r.expr(e.Kids[0], false)
		r.w(")")
	case "import":
		r.w("import(" + strconv.Quote(e.S) + ")")
	default:
		panic("lang.Render: unknown expression kind " + e.K)
	}
}

func (r *renderer) postfixBase(b *Node) {
	switch b.K {
	case "int", "float":
		// 1.foo / 1[0] would scan badly; parenthesise number bases
		r.w("(")
		r.expr(b, false)
		r.w(")")
	default:
		r.expr(b, true)
	}
}

// FloatLit renders a finite non-negative float so that tengo scans it as a
// float literal of exactly that value.
func FloatLit(f float64) string {
	if math.IsNaN(f) || math.IsInf(f, 0) || f < 0 || (f == 0 && math.Signbit(f)) {
		panic(fmt.Sprintf("lang.FloatLit: %v is not a literal", f))
	}
	s := strconv.FormatFloat(f, 'g', -1, 64)
	if !strings.ContainsAny(s, ".e") {
		s += ".0"
	}
	return s
}
