package lang

import "fmt"

// Decl is one declaration site (a variable in the documented lexical sense).
type Decl struct {
	ID      int
	Name    string
	Kind    string // "global" "local" "builtin"
	FuncID  int    // id of the function scope owning a local (0 = main/module top)
	Param   bool
	Node    *Node // declaring node (nil for builtins / host inputs)
	Mod     string // module name for module-level locals ("" = main)
	Root    bool   // defined directly in main's top-level scope (visible to the host)
}

// CompileError is a statically detected error, with the class the compiler
// documents for it.
type CompileError struct {
	Class string // unresolved | redeclared | define-selector | break-outside | continue-outside | return-outside | export-in-func | module-not-found | cyclic-import | assign-builtin | invalid-lhs
	Msg   string
	Node  *Node
}

func (e *CompileError) Error() string { return e.Class + ": " + e.Msg }

// Info is the result of resolving a program.
type Info struct {
	Decls     []*Decl
	Globals   []*Decl          // main-level declarations in definition order (inputs first)
	Inputs    map[string]*Decl // host-provided globals
	NumNodes  int
	MaxLocals map[int]int // function id -> number of local declarations (upper bound on slots)
	NumGlobal int
}

type scope struct {
	parent *scope
	block  bool // block scope (shares the function of its parent)
	fn     *fnCtx
	names  map[string]*Decl
}

type fnCtx struct {
	id     int
	node   *Node // func node; nil for main / module top level
	parent *fnCtx
	top    bool // main or module top level
	module bool // module top level (variables are locals of the module function)
	free   map[*Decl]bool
	loops  int
	mod    string
}

type resolver struct {
	info     *Info
	builtins map[string]*Decl
	modules  map[string]*Node
	knownMods map[string]bool // builtin (Go) modules the host provides
	nextID   int
	nextFn   int
	modStack []string
	modDone  map[string]bool
	err      *CompileError
}

// BuiltinNames are the language's builtin functions in index order.
var BuiltinNames = []string{"len", "copy", "append", "delete", "splice", "string", "int", "bool", "float",
	"char", "bytes", "time", "is_int", "is_float", "is_string", "is_bool", "is_char", "is_bytes", "is_array",
	"is_immutable_array", "is_map", "is_immutable_map", "is_iterable", "is_time", "is_error", "is_undefined",
	"is_function", "is_callable", "type_name", "format", "range", "freeze"}

// Resolve resolves names of p with the given host input names and builtin
// (Go) module names. It annotates nodes (Ref, Free, ID) and returns the first
// compile error in compilation order, if any.
func Resolve(p *Program, inputs []string, goModules []string) (*Info, *CompileError) {
	r := &resolver{
		info:     &Info{Inputs: map[string]*Decl{}, MaxLocals: map[int]int{}},
		builtins: map[string]*Decl{},
		modules:  p.Modules,
		knownMods: map[string]bool{},
		modDone:  map[string]bool{},
	}
	for _, m := range goModules {
		r.knownMods[m] = true
	}
	root := &scope{names: map[string]*Decl{}}
	mainFn := &fnCtx{id: 0, top: true, free: map[*Decl]bool{}}
	root.fn = mainFn
	for _, b := range BuiltinNames {
		d := r.newDecl(b, "builtin", nil, mainFn)
		r.builtins[b] = d
		root.names[b] = d
	}
	for _, in := range inputs {
		d := r.newDecl(in, "global", nil, mainFn)
		d.Root = true
		root.names[in] = d
		r.info.Inputs[in] = d
		r.info.Globals = append(r.info.Globals, d)
	}
	r.number(p.Main)
	for _, m := range sortedKeys(p.Modules) {
		r.number(p.Modules[m])
	}
	r.stmts(p.Main.Kids, root)
	r.info.NumNodes = r.nextID
	return r.info, r.err
}

func sortedKeys(m map[string]*Node) []string {
	ks := make([]string, 0, len(m))
	for k := range m {
		ks = append(ks, k)
	}
	for i := 1; i < len(ks); i++ {
		for j := i; j > 0 && ks[j] < ks[j-1]; j-- {
			ks[j], ks[j-1] = ks[j-1], ks[j]
		}
	}
	return ks
}

func (r *resolver) number(n *Node) {
	Walk(n, func(x *Node) bool {
		r.nextID++
		x.ID = r.nextID
		x.Ref, x.Ref2, x.Free, x.PD = nil, nil, nil, nil
		return true
	})
}

func (r *resolver) newDecl(name, kind string, node *Node, fn *fnCtx) *Decl {
	d := &Decl{ID: len(r.info.Decls) + 1, Name: name, Kind: kind, Node: node, FuncID: fn.id, Mod: fn.mod}
	r.info.Decls = append(r.info.Decls, d)
	return d
}

func (r *resolver) fail(class string, n *Node, format string, args ...interface{}) {
	if r.err == nil {
		r.err = &CompileError{Class: class, Msg: fmt.Sprintf(format, args...), Node: n}
	}
}

// lookup finds name and returns the decl and the number of scopes walked.
func (s *scope) lookup(name string) (*Decl, int) {
	depth := 0
	for c := s; c != nil; c = c.parent {
		if d, ok := c.names[name]; ok {
			return d, depth
		}
		depth++
	}
	return nil, 0
}

func (r *resolver) define(s *scope, name string, node *Node, param bool) *Decl {
	kind := "local"
	if s.fn.top && !s.fn.module {
		kind = "global"
	}
	d := r.newDecl(name, kind, node, s.fn)
	d.Param = param
	d.Root = s.parent == nil
	s.names[name] = d
	if kind == "global" {
		r.info.Globals = append(r.info.Globals, d)
		r.info.NumGlobal++
	} else {
		r.info.MaxLocals[s.fn.id]++
	}
	return d
}

// use records that decl d is referenced from scope s (marks captures).
func (r *resolver) use(s *scope, d *Decl) {
	if d.Kind != "local" {
		return
	}
	for f := s.fn; f != nil && f.id != d.FuncID; f = f.parent {
		f.free[d] = true
	}
}

func (r *resolver) stmts(xs []*Node, s *scope) {
	for _, x := range xs {
		if r.err != nil {
			return
		}
		if x != nil {
			r.stmt(x, s)
		}
	}
}

func fork(s *scope) *scope {
	return &scope{parent: s, block: true, fn: s.fn, names: map[string]*Decl{}}
}

func (r *resolver) blockStmt(b *Node, s *scope) {
	if b == nil || len(b.Kids) == 0 {
		return
	}
	r.stmts(b.Kids, fork(s))
}

func lhsBase(e *Node) (*Node, int) {
	n := 0
	for e != nil {
		switch e.K {
		case "index", "selector":
			n++
			e = e.Kids[0]
		case "ident":
			return e, n
		default:
			return nil, n
		}
	}
	return nil, n
}

func (r *resolver) assignLike(st *Node, lhs, rhs *Node, op string, s *scope) {
	base, nsel := lhsBase(lhs)
	if base == nil {
		// compiler resolves the empty name: "unresolved reference ''"
		if op == ":=" && nsel > 0 {
			r.fail("define-selector", st, "operator ':=' not allowed with selector")
			return
		}
		r.fail("unresolved", st, "unresolved reference ''")
		return
	}
	d, _ := s.lookup(base.S)
	if d == nil {
		r.fail("unresolved", st, "unresolved reference '%s'", base.S)
		return
	}
	if op != "=" {
		// compound: LHS is first read as an expression
		r.expr(lhs, s)
		if r.err != nil {
			return
		}
	}
	if rhs != nil {
		r.expr(rhs, s)
		if r.err != nil {
			return
		}
	}
	// selectors are compiled last to first
	sels := []*Node{}
	for e := lhs; e.K == "index" || e.K == "selector"; e = e.Kids[0] {
		if e.K == "index" {
			sels = append(sels, e.Kids[1])
		}
	}
	for _, se := range sels {
		r.expr(se, s)
		if r.err != nil {
			return
		}
	}
	if d.Kind == "builtin" {
		r.fail("assign-builtin", st, "assignment to builtin '%s'", base.S)
		return
	}
	base.Ref = d
	r.use(s, d)
}

func (r *resolver) stmt(x *Node, s *scope) {
	switch x.K {
	case "define":
		name := x.S
		// the compiler resolves the name for its redeclaration check; resolving
		// an enclosing function's local from inside a function captures it
		// (observable only as one more closure allocation)
		if d, _ := s.lookup(name); d != nil {
			r.use(s, d)
		}
		if _, ok := s.names[name]; ok {
			r.fail("redeclared", x, "'%s' redeclared in this block", name)
			return
		}
		rhs := x.Kids[0]
		if rhs.K == "func" {
			d := r.define(s, name, x, false)
			x.Ref = d
			r.expr(rhs, s)
		} else {
			r.expr(rhs, s)
			if r.err != nil {
				return
			}
			x.Ref = r.define(s, name, x, false)
		}
	case "assign":
		r.assignLike(x, x.Kids[0], x.Kids[1], x.S, s)
	case "incdec":
		r.assignLike(x, x.Kids[0], nil, x.S, s)
	case "exprstmt":
		r.expr(x.Kids[0], s)
	case "if":
		is := fork(s)
		if x.Kids[0] != nil {
			r.stmt(x.Kids[0], is)
		}
		if r.err != nil {
			return
		}
		r.expr(x.Kids[1], is)
		if r.err != nil {
			return
		}
		r.blockStmt(x.Kids[2], is)
		if r.err != nil {
			return
		}
		if e := x.Kids[3]; e != nil {
			if e.K == "if" {
				r.stmt(e, is)
			} else {
				r.blockStmt(e, is)
			}
		}
	case "for":
		fs := fork(s)
		if x.Kids[0] != nil {
			r.stmt(x.Kids[0], fs)
		}
		if r.err != nil {
			return
		}
		if x.Kids[1] != nil {
			r.expr(x.Kids[1], fs)
		}
		if r.err != nil {
			return
		}
		fs.fn.loops++
		r.blockStmt(x.Kids[3], fs)
		fs.fn.loops--
		if r.err != nil {
			return
		}
		if x.Kids[2] != nil {
			r.stmt(x.Kids[2], fs)
		}
	case "forin":
		fs := fork(s)
		// the hidden iterator variable occupies a slot
		if fs.fn.top && !fs.fn.module {
			r.info.NumGlobal++
		} else {
			r.info.MaxLocals[fs.fn.id]++
		}
		r.expr(x.Kids[0], fs)
		if r.err != nil {
			return
		}
		if x.S != "" && x.S != "_" {
			x.Ref = r.define(fs, x.S, x, false)
		}
		if x.S2 != "" && x.S2 != "_" {
			x.Ref2 = r.define(fs, x.S2, x, false)
		}
		fs.fn.loops++
		r.blockStmt(x.Kids[1], fs)
		fs.fn.loops--
	case "break":
		if s.fn.loops == 0 {
			r.fail("break-outside", x, "break not allowed outside loop")
		}
	case "continue":
		if s.fn.loops == 0 {
			r.fail("continue-outside", x, "continue not allowed outside loop")
		}
	case "return":
		if s.fn.top && !s.fn.module {
			r.fail("return-outside", x, "return not allowed outside function")
			return
		}
		if x.Kids[0] != nil {
			r.expr(x.Kids[0], s)
		}
	case "export":
		if !s.fn.top {
			r.fail("export-in-func", x, "export not allowed inside function")
			return
		}
		if !s.fn.module {
			return // ignored in main: the expression is not even compiled
		}
		r.expr(x.Kids[0], s)
	case "block":
		r.blockStmt(x, s)
	default:
		panic("lang.Resolve: unknown statement kind " + x.K)
	}
}

func (r *resolver) expr(e *Node, s *scope) {
	if e == nil || r.err != nil {
		return
	}
	switch e.K {
	case "ident":
		d, _ := s.lookup(e.S)
		if d == nil {
			r.fail("unresolved", e, "unresolved reference '%s'", e.S)
			return
		}
		e.Ref = d
		r.use(s, d)
	case "func":
		fn := &fnCtx{id: 0, node: e, parent: s.fn, free: map[*Decl]bool{}, mod: s.fn.mod}
		r.nextFn++
		fn.id = r.nextFn
		fs := &scope{parent: s, fn: fn, names: map[string]*Decl{}}
		for _, p := range e.Params {
			e.PD = append(e.PD, r.define(fs, p, e, true))
		}
		r.blockStmt(e.Kids[0], fs)
		// captured declarations, in a deterministic order
		for _, d := range r.info.Decls {
			if fn.free[d] {
				e.Free = append(e.Free, d)
			}
		}
	case "import":
		r.importExpr(e, s)
	default:
		for _, k := range e.Kids {
			r.expr(k, s)
			if r.err != nil {
				return
			}
		}
	}
}

func (r *resolver) importExpr(e *Node, s *scope) {
	name := e.S
	if name == "" {
		r.fail("empty-module", e, "empty module name")
		return
	}
	if body, ok := r.modules[name]; ok {
		for _, m := range r.modStack {
			if m == name {
				r.fail("cyclic-import", e, "cyclic module import: %s", name)
				return
			}
		}
		if r.modDone[name] {
			return
		}
		r.modStack = append(r.modStack, name)
		root := &scope{names: map[string]*Decl{}}
		for k, v := range r.builtins {
			root.names[k] = v
		}
		r.nextFn++
		fn := &fnCtx{id: r.nextFn, top: true, module: true, free: map[*Decl]bool{}, mod: name}
		root.fn = fn
		ms := &scope{parent: root, fn: fn, names: map[string]*Decl{}}
		r.stmts(body.Kids, ms)
		r.modStack = r.modStack[:len(r.modStack)-1]
		if r.err == nil {
			r.modDone[name] = true
		}
		return
	}
	if r.knownMods[name] {
		return
	}
	r.fail("module-not-found", e, "module '%s' not found", name)
}
