package lang

// Val is a JSON-serialisable description of a host input value, with
// explicit sharing: all container Vals carrying the same Share id (> 0)
// denote one object (the first occurrence in a pre-order walk defines it).
type Val struct {
	T     string   `json:"t"` // int float char string bytes bool undefined time error array imm-array map imm-map builtin hostfn
	I     int64    `json:"i,omitempty"`
	Bits  uint64   `json:"bits,omitempty"` // float64 bits
	S     []byte   `json:"s,omitempty"`    // string / bytes content
	B     bool     `json:"b,omitempty"`
	Sec   int64    `json:"sec,omitempty"`
	Nsec  int64    `json:"nsec,omitempty"`
	Zone  int      `json:"zone,omitempty"` // offset seconds east of UTC; ZeroTime => zero time
	ZeroT bool     `json:"zero_time,omitempty"`
	Name  string   `json:"name,omitempty"` // builtin / host function name
	Kids  []*Val   `json:"kids,omitempty"`
	Keys  []string `json:"keys,omitempty"`
	Share int      `json:"share,omitempty"`
}
