package ref

import (
	"fmt"
	"strconv"
	"time"
)

func wrongArgs(name string) {
	rtErr("wrong-args", "wrong number of arguments in call to 'builtin-function:%s'", name)
}

func argType(name, arg, expected string, found Value) {
	rtErr("arg-type", "invalid type for argument '%s' in call to 'builtin-function:%s': expected %s, found %s",
		arg, name, expected, TypeName(found))
}

func (it *Interp) callBuiltin(name string, args []Value) Value {
	n := len(args)
	is := func(pred func(Value) bool) Value {
		if n != 1 {
			wrongArgs(name)
		}
		return BoolV(pred(args[0]))
	}
	conv := func(f func(Value) (Value, bool)) Value {
		if n != 1 && n != 2 {
			wrongArgs(name)
		}
		if v, ok := f(args[0]); ok {
			return v
		}
		if n == 2 {
			return args[1]
		}
		return Undef
	}
	switch name {
	case "len":
		if n != 1 {
			wrongArgs(name)
		}
		switch x := args[0].(type) {
		case *ArrV:
			return IntV(x.N)
		case StrV:
			return IntV(len(x))
		case BytesV:
			return IntV(len(x))
		case *MapV:
			return IntV(len(x.Ms.M))
		}
		argType(name, "first", "array/string/bytes/map", args[0])
	case "copy":
		if n != 1 {
			wrongArgs(name)
		}
		return it.CopyValue(args[0], 0)
	case "append":
		if n < 2 {
			wrongArgs(name)
		}
		a, ok := args[0].(*ArrV)
		if !ok {
			argType(name, "first", "array", args[0])
		}
		return it.appendTo(a, args[1:])
	case "delete":
		if n != 2 {
			wrongArgs(name)
		}
		m, ok := args[0].(*MapV)
		if !ok || m.Imm {
			argType(name, "first", "map", args[0])
		}
		k, ok := args[1].(StrV)
		if !ok {
			argType(name, "second", "string", args[1])
		}
		delete(m.Ms.M, string(k))
		return Undef
	case "splice":
		return it.splice(args)
	case "string":
		return conv(func(v Value) (Value, bool) {
			switch x := v.(type) {
			case StrV:
				return x, true
			case UndefV:
				return nil, false
			}
			it.noteMapRender(v)
			big(v)
			s := it.Pol.Str(v, 0)
			it.checkStr(len(s))
			return StrV(s), true
		})
	case "int":
		return conv(func(v Value) (Value, bool) {
			switch x := v.(type) {
			case IntV:
				return x, true
			case FloatV:
				return IntV(f2i(float64(x))), true
			case CharV:
				return IntV(x), true
			case BoolV:
				if x {
					return IntV(1), true
				}
				return IntV(0), true
			case StrV:
				if c, err := strconv.ParseInt(string(x), 10, 64); err == nil {
					return IntV(c), true
				}
			}
			return nil, false
		})
	case "bool":
		if n != 1 {
			wrongArgs(name)
		}
		return BoolV(Truthy(args[0]))
	case "float":
		return conv(func(v Value) (Value, bool) {
			switch x := v.(type) {
			case FloatV:
				return x, true
			case IntV:
				return FloatV(float64(x)), true
			case StrV:
				if c, err := strconv.ParseFloat(string(x), 64); err == nil {
					return FloatV(c), true
				}
			}
			return nil, false
		})
	case "char":
		return conv(func(v Value) (Value, bool) {
			switch x := v.(type) {
			case CharV:
				return x, true
			case IntV:
				return CharV(rune(x)), true
			}
			return nil, false
		})
	case "bytes":
		if n != 1 && n != 2 {
			wrongArgs(name)
		}
		if x, ok := args[0].(IntV); ok {
			if it.MaxBytesLen > 0 && int64(x) > int64(it.MaxBytesLen) {
				rtErr("bytes-limit", "exceeding bytes size limit")
			}
			if x < 0 {
				rtErr("host-panic", "bytes(n) with negative n")
			}
			if x > MaxStr {
				abort("size: bytes(n) beyond reference bound")
			}
			return BytesV(make([]byte, int(x)))
		}
		return conv(func(v Value) (Value, bool) {
			switch x := v.(type) {
			case BytesV:
				it.checkBytes(len(x))
				return x, true
			case StrV:
				it.checkBytes(len(x))
				return BytesV(x), true
			}
			return nil, false
		})
	case "time":
		return conv(func(v Value) (Value, bool) {
			switch x := v.(type) {
			case TimeV:
				return x, true
			case IntV:
				return TimeV{time.Unix(int64(x), 0)}, true
			}
			return nil, false
		})
	case "is_int":
		return is(func(v Value) bool { _, ok := v.(IntV); return ok })
	case "is_float":
		return is(func(v Value) bool { _, ok := v.(FloatV); return ok })
	case "is_string":
		return is(func(v Value) bool { _, ok := v.(StrV); return ok })
	case "is_bool":
		return is(func(v Value) bool { _, ok := v.(BoolV); return ok })
	case "is_char":
		return is(func(v Value) bool { _, ok := v.(CharV); return ok })
	case "is_bytes":
		return is(func(v Value) bool { _, ok := v.(BytesV); return ok })
	case "is_array":
		return is(func(v Value) bool { a, ok := v.(*ArrV); return ok && !a.Imm })
	case "is_immutable_array":
		return is(func(v Value) bool { a, ok := v.(*ArrV); return ok && a.Imm })
	case "is_map":
		return is(func(v Value) bool { a, ok := v.(*MapV); return ok && !a.Imm })
	case "is_immutable_map":
		return is(func(v Value) bool { a, ok := v.(*MapV); return ok && a.Imm })
	case "is_iterable":
		return is(func(v Value) bool {
			switch v.(type) {
			case *ArrV, *MapV, StrV, BytesV, UndefV:
				return true
			}
			return false
		})
	case "is_time":
		return is(func(v Value) bool { _, ok := v.(TimeV); return ok })
	case "is_error":
		return is(func(v Value) bool { _, ok := v.(*ErrV); return ok })
	case "is_undefined":
		return is(func(v Value) bool { _, ok := v.(UndefV); return ok })
	case "is_function":
		return is(func(v Value) bool { _, ok := v.(*FuncV); return ok })
	case "is_callable":
		return is(func(v Value) bool {
			switch v.(type) {
			case *FuncV, *BuiltinV, *HostFnV:
				return true
			}
			return false
		})
	case "type_name":
		if n != 1 {
			wrongArgs(name)
		}
		return StrV(TypeName(args[0]))
	case "format":
		return it.format(args)
	case "range":
		if n < 2 || n > 3 {
			wrongArgs(name)
		}
		names := []string{"start", "stop", "step"}
		vals := []int64{0, 0, 1}
		for i, a := range args {
			x, ok := a.(IntV)
			if !ok {
				argType(name, names[i], "int", a)
			}
			if i == 2 && x <= 0 {
				rtErr("range-step", "range step must be greater than 0")
			}
			vals[i] = int64(x)
		}
		start, stop, step := vals[0], vals[1], vals[2]
		var elems []Value
		// guard against huge results (and int64 overflow of the counter)
		span := float64(stop) - float64(start)
		if span < 0 {
			span = -span
		}
		if span/float64(step) > 5000 {
			abort("size: range() result beyond reference bound")
		}
		if start <= stop {
			for i := start; i < stop; i += step {
				elems = append(elems, IntV(i))
				if i+step < i {
					break // the counter would overflow: the sequence ends
				}
			}
		} else {
			for i := start; i > stop; i -= step {
				elems = append(elems, IntV(i))
				if i-step > i {
					break
				}
			}
		}
		return it.Pol.NewArr(elems)
	case "freeze":
		if n != 1 {
			wrongArgs(name)
		}
		big(args[0])
		v, _ := it.freeze(args[0], map[interface{}]Value{}, 0)
		return v
	}
	panic("ref: unknown builtin " + name)
}

// appendTo implements append(a, items...): the result may share a's storage
// when the capacity allows (policy), except for an immutable source, whose
// storage must never become writable.
func (it *Interp) appendTo(a *ArrV, items []Value) Value {
	newN := a.N + len(items)
	if newN > MaxStr {
		abort("size: array beyond reference bound")
	}
	if !a.Imm && newN <= a.Cap {
		res := &ArrV{St: a.St, Off: a.Off, N: newN, Cap: a.Cap}
		for i, v := range items {
			it.occurs(res, v)
			res.Set(a.N+i, v)
		}
		return res
	}
	elems := append(a.Elems(), items...)
	st := &Store{Data: elems}
	return &ArrV{St: st, N: newN, Cap: it.Pol.growCap(newN)}
}

func (it *Interp) splice(args []Value) Value {
	n := len(args)
	if n == 0 {
		wrongArgs("splice")
	}
	a, ok := args[0].(*ArrV)
	if !ok || a.Imm {
		argType("splice", "first", "array", args[0])
	}
	start := 0
	if n > 1 {
		x, ok := args[1].(IntV)
		if !ok {
			argType("splice", "second", "int", args[1])
		}
		start = int(x)
		if start < 0 || start > a.N {
			rtErr("oob", "index out of bounds")
		}
	}
	del := a.N
	if n > 2 {
		x, ok := args[2].(IntV)
		if !ok {
			argType("splice", "third", "int", args[2])
		}
		del = int(x)
		if del < 0 {
			rtErr("oob", "index out of bounds")
		}
	}
	if start+del > a.N || start+del < 0 {
		del = a.N - start
	}
	end := start + del
	old := a.Elems()
	deleted := append([]Value(nil), old[start:end]...)
	var items []Value
	if n > 3 {
		items = append(items, args[3:]...)
	}
	tail := append(append([]Value(nil), items...), old[end:]...)
	newN := start + len(tail)
	if newN > MaxStr {
		abort("size: array beyond reference bound")
	}
	for _, v := range items {
		it.occurs(a, v)
	}
	if newN <= a.Cap {
		// in place: other views of the same storage observe the shift
		for i, v := range tail {
			a.Set(start+i, v)
		}
		a.N = newN
	} else {
		elems := append(append([]Value(nil), old[:start]...), tail...)
		a.St = &Store{Data: elems}
		a.Off = 0
		a.N = newN
		a.Cap = it.Pol.growCap(newN)
	}
	return it.Pol.NewArr(deleted)
}

// freeze: deep immutable conversion; memo preserves sharing of mutable parts.
// The second result reports whether the returned value differs from v.
func (it *Interp) freeze(v Value, memo map[interface{}]Value, depth int) (Value, bool) {
	if depth > 200 {
		abort("size: nesting beyond reference bound")
	}
	switch x := v.(type) {
	case *ArrV:
		if !x.Imm {
			if c, ok := memo[x]; ok {
				return c, true
			}
			res := &ArrV{St: &Store{Data: make([]Value, x.N)}, N: x.N, Cap: x.N, Imm: true}
			memo[x] = res
			for i := 0; i < x.N; i++ {
				f, _ := it.freeze(x.At(i), memo, depth+1)
				res.St.Data[i] = f
			}
			return res, true
		}
		elems := make([]Value, x.N)
		changed := false
		for i := 0; i < x.N; i++ {
			f, ch := it.freeze(x.At(i), memo, depth+1)
			elems[i] = f
			changed = changed || ch
		}
		if !changed {
			return x, false
		}
		return &ArrV{St: &Store{Data: elems}, N: x.N, Cap: x.N, Imm: true}, true
	case *MapV:
		if !x.Imm {
			if c, ok := memo[x]; ok {
				return c, true
			}
			res := &MapV{Ms: &MapStore{M: make(map[string]Value, len(x.Ms.M))}, Imm: true}
			memo[x] = res
			for k, e := range x.Ms.M {
				f, _ := it.freeze(e, memo, depth+1)
				res.Ms.M[k] = f
			}
			return res, true
		}
		m := make(map[string]Value, len(x.Ms.M))
		changed := false
		for k, e := range x.Ms.M {
			f, ch := it.freeze(e, memo, depth+1)
			m[k] = f
			changed = changed || ch
		}
		if !changed {
			return x, false
		}
		return &MapV{Ms: &MapStore{M: m}, Imm: true}, true
	}
	return v, false
}

// format models the builtin for the directly mapped argument types and the
// verbs whose rendering Go's fmt defines for them; other uses leave the
// domain the reference decides.
func (it *Interp) format(args []Value) Value {
	if len(args) == 0 {
		wrongArgs("format")
	}
	f, ok := args[0].(StrV)
	if !ok {
		argType("format", "format", "string", args[0])
	}
	if len(args) == 1 {
		for i := 0; i < len(f); i++ {
			if f[i] == '%' {
				abort("format: zero-argument call with a directive")
			}
		}
		return f
	}
	goArgs := make([]interface{}, 0, len(args)-1)
	for _, a := range args[1:] {
		switch x := a.(type) {
		case IntV:
			goArgs = append(goArgs, int64(x))
		case FloatV:
			goArgs = append(goArgs, float64(x))
		case StrV:
			goArgs = append(goArgs, string(x))
		case BoolV:
			goArgs = append(goArgs, bool(x))
		default:
			abort("format: argument type outside the modelled set")
		}
	}
	if !formatModelled(string(f), goArgs) {
		abort("format: directive outside the modelled set")
	}
	s := fmt.Sprintf(string(f), goArgs...)
	it.checkStr(len(s))
	return StrV(s)
}

// formatModelled accepts format strings made of literal text (without %)
// and the directives %d %s %t %f %.Nf %x %q %5d %-5s %05d %+d applied to an
// argument of the documented type, with exactly as many arguments as
// directives.
func formatModelled(f string, args []interface{}) bool {
	ai := 0
	for i := 0; i < len(f); i++ {
		if f[i] != '%' {
			continue
		}
		i++
		// flags
		for i < len(f) && (f[i] == '-' || f[i] == '+' || f[i] == '0') {
			i++
		}
		for i < len(f) && f[i] >= '0' && f[i] <= '9' {
			i++
		}
		if i < len(f) && f[i] == '.' {
			i++
			for i < len(f) && f[i] >= '0' && f[i] <= '9' {
				i++
			}
		}
		if i >= len(f) || ai >= len(args) {
			return false
		}
		switch f[i] {
		case 'd':
			if _, ok := args[ai].(int64); !ok {
				return false
			}
		case 's', 'q':
			if _, ok := args[ai].(string); !ok {
				return false
			}
		case 't':
			if _, ok := args[ai].(bool); !ok {
				return false
			}
		case 'f', 'e':
			if _, ok := args[ai].(float64); !ok {
				return false
			}
		case 'x':
			switch args[ai].(type) {
			case int64, string:
			default:
				return false
			}
		default:
			return false
		}
		ai++
	}
	return ai == len(args) && len(args) > 0
}
