package ref

import (
	"math"
	"time"

	"verifharness/lang"
)

// FromVal instantiates a host input description; memo (by Share id) keeps
// shared containers shared.
func FromVal(v *lang.Val, pol Policy, memo map[int]Value) Value {
	if v == nil {
		return Undef
	}
	if v.Share > 0 {
		if x, ok := memo[v.Share]; ok {
			return x
		}
	}
	var out Value
	switch v.T {
	case "int":
		out = IntV(v.I)
	case "float":
		out = FloatV(math.Float64frombits(v.Bits))
	case "char":
		out = CharV(rune(v.I))
	case "string":
		out = StrV(string(v.S))
	case "bytes":
		out = BytesV(string(v.S))
	case "bool":
		out = BoolV(v.B)
	case "undefined":
		out = Undef
	case "time":
		if v.ZeroT {
			out = TimeV{}
		} else {
			loc := time.UTC
			if v.Zone != 0 {
				loc = time.FixedZone("Z", v.Zone)
			}
			out = TimeV{time.Unix(v.Sec, v.Nsec).In(loc)}
		}
	case "error":
		e := &ErrV{}
		if v.Share > 0 {
			memo[v.Share] = e
		}
		if len(v.Kids) > 0 {
			e.V = FromVal(v.Kids[0], pol, memo)
		} else {
			e.V = Undef
		}
		return e
	case "array", "imm-array":
		// host arrays have exactly their length as capacity
		a := &ArrV{St: &Store{Data: make([]Value, len(v.Kids))}, N: len(v.Kids), Cap: len(v.Kids), Imm: v.T == "imm-array"}
		if pol.Cap == "inf" {
			a.Cap = infCap
		}
		if v.Share > 0 {
			memo[v.Share] = a
		}
		for i, k := range v.Kids {
			a.St.Data[i] = FromVal(k, pol, memo)
		}
		return a
	case "map", "imm-map":
		m := &MapV{Ms: &MapStore{M: make(map[string]Value, len(v.Kids))}, Imm: v.T == "imm-map"}
		if v.Share > 0 {
			memo[v.Share] = m
		}
		for i, k := range v.Kids {
			m.Ms.M[v.Keys[i]] = FromVal(k, pol, memo)
		}
		return m
	case "builtin":
		out = &BuiltinV{Name: v.Name, Impl: v.Name}
	case "hostfn":
		out = &HostFnV{Name: v.Name}
	default:
		panic("ref.FromVal: unknown kind " + v.T)
	}
	if v.Share > 0 {
		memo[v.Share] = out
	}
	return out
}
