package ref

import (
	"fmt"

	"verifharness/lang"
)

// Stats are counters collected during one run.
type Stats struct {
	Steps       int
	Allocs      int64
	Calls       int
	MaxDepth    int
	MapRenders  int
	MapIters    int // for-in over a map with >= 2 keys
	MapOrders   int // every traversal (iteration, rendering to text) of a map with >= 2 keys: what Go's map order can influence
	Closures    int
	Captures    int // closure creations with >= 1 captured variable
	Loops       int
	SelAssigns  int
	Builtins    int
	Coercions   int
	Spreads     int
	AllocKinds  map[string]int
	FuncsCalled map[int]bool // func node ids that were executed
}

// Interp evaluates one program under one policy.
type Interp struct {
	Pol          Policy
	Prog         *lang.Program
	Info         *lang.Info
	Budget       int
	MaxDepthLim  int
	MaxAllocs    int64 // < 0 unlimited
	MaxStringLen int   // 0 = engine default (unlimited for our sizes)
	MaxBytesLen  int
	HostMods     map[string]map[string]Value // builtin (Go) modules modelled as attribute tables
	Stats        Stats

	globals map[int]*Cell
	depth   int
	modSite map[string]*MapV // one table per builtin module (all import expressions share it)
}

type frame struct {
	cells map[int]*Cell
	mod   string
}

type ctl int

const (
	ctlNone ctl = iota
	ctlBreak
	ctlContinue
	ctlReturn
)

// Outcome of a run.
type Outcome struct {
	Status  string // ok | runtime-error | compile-error | abort
	RErr    *RuntimeError
	CErr    *lang.CompileError
	Abort   string
	Globals map[string]Value // host-visible variables (root-level names), undefined when never assigned
	Stats   Stats
}

// Key summarises the outcome for comparison across policies.
func (o *Outcome) Key() string {
	s := o.Status
	if o.RErr != nil {
		// the message names operand types: two policies failing at
		// different operands are different outcomes
		s += ":" + o.RErr.Kind + ":" + o.RErr.Msg
	}
	if o.CErr != nil {
		s += ":" + o.CErr.Class
	}
	if o.Status == "abort" {
		return s + ":" + o.Abort
	}
	return s + "|" + DescribeGlobals(o.Globals)
}

// DescribeGlobals renders the host-visible variables deterministically.
func DescribeGlobals(g map[string]Value) string {
	names := make([]string, 0, len(g))
	for k := range g {
		names = append(names, k)
	}
	sortStrings(names)
	s := ""
	for _, k := range names {
		s += k + "=" + Describe(g[k]) + ";"
	}
	return s
}

func sortStrings(a []string) {
	for i := 1; i < len(a); i++ {
		for j := i; j > 0 && a[j] < a[j-1]; j-- {
			a[j], a[j-1] = a[j-1], a[j]
		}
	}
}

func (it *Interp) alloc() {
	it.Stats.Allocs++
	if it.MaxAllocs >= 0 && it.Stats.Allocs > it.MaxAllocs {
		rtErr("alloc-limit", "allocation limit exceeded")
	}
}

func (it *Interp) allocKind(k string) {
	if it.Stats.AllocKinds == nil {
		it.Stats.AllocKinds = map[string]int{}
	}
	it.Stats.AllocKinds[k]++
	it.alloc()
}

func (it *Interp) step() {
	it.Stats.Steps++
	if it.Stats.Steps > it.Budget {
		abort("budget: step budget exceeded")
	}
}

// Run resolves and evaluates prog with the given host inputs.
func Run(prog *lang.Program, inputs map[string]Value, pol Policy, cfg Config) (out *Outcome) {
	names := make([]string, 0, len(inputs))
	for k := range inputs {
		names = append(names, k)
	}
	sortStrings(names)
	var goMods []string
	for k := range cfg.HostMods {
		goMods = append(goMods, k)
	}
	info, cerr := lang.Resolve(prog, names, goMods)
	out = &Outcome{Globals: map[string]Value{}}
	if cerr == nil && cfg.MaxStringLen > 0 {
		// string literals (and map-literal keys) longer than the configured
		// maximum are rejected at compile time
		check := func(n *lang.Node) bool {
			if cerr != nil {
				return false
			}
			if n.K == "string" && len(n.Bs) > cfg.MaxStringLen {
				cerr = &lang.CompileError{Class: "string-limit", Msg: "exceeding string size limit", Node: n}
			}
			if n.K == "map" {
				for _, k := range n.Keys {
					if len(k) > cfg.MaxStringLen {
						cerr = &lang.CompileError{Class: "string-limit", Msg: "exceeding string size limit", Node: n}
					}
				}
			}
			return true
		}
		lang.Walk(prog.Main, check)
		for _, m := range prog.Modules {
			lang.Walk(m, check)
		}
	}
	if cerr != nil {
		out.Status = "compile-error"
		out.CErr = cerr
		return out
	}
	for fid, n := range info.MaxLocals {
		_ = fid
		if n > 250 {
			out.Status = "abort"
			out.Abort = "limits: more than 250 locals in one function"
			return out
		}
	}
	if info.NumGlobal+len(inputs) > 1000 {
		out.Status = "abort"
		out.Abort = "limits: more than 1000 globals"
		return out
	}
	it := &Interp{Pol: pol, Prog: prog, Info: info, Budget: cfg.Budget, MaxDepthLim: cfg.MaxDepth,
		MaxAllocs: cfg.MaxAllocs, MaxStringLen: cfg.MaxStringLen, MaxBytesLen: cfg.MaxBytesLen,
		HostMods: cfg.HostMods, globals: map[int]*Cell{}, modSite: map[string]*MapV{}}
	if it.Budget == 0 {
		it.Budget = 50000
	}
	if it.MaxDepthLim == 0 {
		it.MaxDepthLim = 150
	}
	it.Stats.FuncsCalled = map[int]bool{}
	it.Pol.Orders = &it.Stats.MapOrders
	for name, d := range info.Inputs {
		it.globals[d.ID] = &Cell{V: inputs[name]}
	}
	defer func() {
		if r := recover(); r != nil {
			switch e := r.(type) {
			case *RuntimeError:
				out.Status = "runtime-error"
				out.RErr = e
			case *Abort:
				out.Status = "abort"
				out.Abort = e.Reason
			default:
				panic(r)
			}
		}
		it.collect(out)
	}()
	fr := &frame{cells: map[int]*Cell{}}
	out.Status = "ok"
	it.execBlockNoScope(prog.Main.Kids, fr)
	return out
}

// Config bounds a run.
type Config struct {
	Budget       int
	MaxDepth     int
	MaxAllocs    int64
	MaxStringLen int
	MaxBytesLen  int
	HostMods     map[string]map[string]Value
}

// DefaultConfig: unlimited allocations, default bounds.
func DefaultConfig() Config { return Config{MaxAllocs: -1} }

func (it *Interp) collect(out *Outcome) {
	total := 0
	for _, d := range it.Info.Globals {
		if !d.Root {
			continue
		}
		if c, ok := it.globals[d.ID]; ok && c.V != nil {
			out.Globals[d.Name] = c.V
			total += TreeSize(c.V, maxTree)
		} else {
			out.Globals[d.Name] = Undef
		}
	}
	if total > maxTree && out.Status != "abort" {
		// exponentially shared structures: rendering the result is beyond
		// the reference's bound
		out.Status = "abort"
		out.Abort = "size: result too large to render"
		out.Globals = map[string]Value{}
	}
	out.Stats = it.Stats
}

// ---------- variables ----------

func (it *Interp) lookup(d *lang.Decl, fr *frame) *Cell {
	switch d.Kind {
	case "global":
		return it.globals[d.ID]
	case "local":
		return fr.cells[d.ID]
	}
	return nil
}

func (it *Interp) declare(d *lang.Decl, fr *frame, v Value) {
	switch d.Kind {
	case "global":
		// a declaration site at top level owns one slot
		if c, ok := it.globals[d.ID]; ok {
			c.V = v
		} else {
			it.globals[d.ID] = &Cell{V: v}
		}
	case "local":
		// every execution of := creates a fresh variable
		fr.cells[d.ID] = &Cell{V: v}
	}
}

func (it *Interp) readVar(n *lang.Node, fr *frame) Value {
	d := n.Ref
	if d == nil {
		panic("ref: unresolved identifier " + n.S)
	}
	if d.Kind == "builtin" {
		return &BuiltinV{Name: d.Name, Impl: d.Name}
	}
	c := it.lookup(d, fr)
	if c == nil || c.V == nil {
		abort("uninit: read of a variable whose definition has not executed")
	}
	return c.V
}

// ---------- statements ----------

func (it *Interp) execBlockNoScope(stmts []*lang.Node, fr *frame) (ctl, Value) {
	for _, s := range stmts {
		if s == nil {
			continue
		}
		if c, v := it.exec(s, fr); c != ctlNone {
			return c, v
		}
	}
	return ctlNone, nil
}

func (it *Interp) execBlock(b *lang.Node, fr *frame) (ctl, Value) {
	if b == nil {
		return ctlNone, nil
	}
	return it.execBlockNoScope(b.Kids, fr)
}

func (it *Interp) exec(s *lang.Node, fr *frame) (ctl, Value) {
	it.step()
	switch s.K {
	case "define":
		rhs := s.Kids[0]
		if rhs.K == "func" {
			// the name is in scope inside its own function literal
			it.declare(s.Ref, fr, Undef)
			v := it.eval(rhs, fr)
			it.lookup(s.Ref, fr).V = v
		} else {
			v := it.eval(rhs, fr)
			it.declare(s.Ref, fr, v)
		}
	case "assign":
		it.assign(s, s.Kids[0], s.Kids[1], s.S, fr)
	case "incdec":
		op := "+="
		if s.S == "--" {
			op = "-="
		}
		it.assign(s, s.Kids[0], nil, op, fr)
	case "exprstmt":
		it.eval(s.Kids[0], fr)
	case "if":
		if s.Kids[0] != nil {
			if c, v := it.exec(s.Kids[0], fr); c != ctlNone {
				return c, v
			}
		}
		if Truthy(it.eval(s.Kids[1], fr)) {
			return it.execBlock(s.Kids[2], fr)
		}
		if e := s.Kids[3]; e != nil {
			if e.K == "if" {
				return it.exec(e, fr)
			}
			return it.execBlock(e, fr)
		}
	case "for":
		it.Stats.Loops++
		if s.Kids[0] != nil {
			it.exec(s.Kids[0], fr)
		}
		for {
			it.step()
			if s.Kids[1] != nil && !Truthy(it.eval(s.Kids[1], fr)) {
				break
			}
			c, v := it.execBlock(s.Kids[3], fr)
			if c == ctlBreak {
				break
			}
			if c == ctlReturn {
				return c, v
			}
			if s.Kids[2] != nil {
				it.exec(s.Kids[2], fr)
			}
		}
	case "forin":
		it.Stats.Loops++
		return it.forIn(s, fr)
	case "break":
		return ctlBreak, nil
	case "continue":
		return ctlContinue, nil
	case "return":
		if s.Kids[0] == nil {
			return ctlReturn, Undef
		}
		return ctlReturn, it.eval(s.Kids[0], fr)
	case "export":
		if fr.mod == "" {
			return ctlNone, nil // ignored in main
		}
		v := it.eval(s.Kids[0], fr)
		return ctlReturn, it.immutable(v)
	case "block":
		return it.execBlock(s, fr)
	default:
		panic("ref: unknown statement " + s.K)
	}
	return ctlNone, nil
}

func (it *Interp) immutable(v Value) Value {
	switch x := v.(type) {
	case *ArrV:
		if !x.Imm {
			it.allocKind("immutable")
			return &ArrV{St: x.St, Off: x.Off, N: x.N, Cap: x.Cap, Imm: true}
		}
	case *MapV:
		if !x.Imm {
			it.allocKind("immutable")
			return &MapV{Ms: x.Ms, Imm: true}
		}
	}
	return v
}

func (it *Interp) forIn(s *lang.Node, fr *frame) (ctl, Value) {
	iter := it.eval(s.Kids[0], fr)
	type kv struct{ k, v func() Value }
	var n int
	var key func(i int) Value
	var val func(i int) Value
	switch x := iter.(type) {
	case *ArrV:
		st, off := x.St, x.Off
		n = x.N
		view := &ArrV{St: st, Off: off, N: n, Cap: n}
		key = func(i int) Value { return IntV(i) }
		val = func(i int) Value { return view.At(i) }
	case StrV:
		rs := []rune(string(x))
		n = len(rs)
		key = func(i int) Value { return IntV(i) }
		val = func(i int) Value { return CharV(rs[i]) }
	case BytesV:
		n = len(x)
		key = func(i int) Value { return IntV(i) }
		val = func(i int) Value { return IntV(x[i]) }
	case *MapV:
		keys := it.Pol.SortedKeys(x)
		n = len(keys)
		if n >= 2 {
			it.Stats.MapIters++
		}
		key = func(i int) Value { return StrV(keys[i]) }
		val = func(i int) Value {
			if v, ok := x.Ms.M[keys[i]]; ok {
				return v
			}
			return Undef // key deleted during iteration reads as undefined
		}
	case UndefV:
		n = 0
	default:
		rtErr("not-iterable", "not iterable: %s", TypeName(iter))
	}
	it.allocKind("iterator")
	for i := 0; i < n; i++ {
		it.step()
		if s.Ref != nil {
			it.declare(s.Ref, fr, key(i))
		}
		if s.Ref2 != nil {
			it.declare(s.Ref2, fr, val(i))
		}
		c, v := it.execBlock(s.Kids[1], fr)
		if c == ctlBreak {
			break
		}
		if c == ctlReturn {
			return c, v
		}
	}
	return ctlNone, nil
}

var compoundOps = map[string]string{"+=": "+", "-=": "-", "*=": "*", "/=": "/", "%=": "%", "&=": "&", "|=": "|",
	"^=": "^", "&^=": "&^", "<<=": "<<", ">>=": ">>"}

// assign implements L = R and L op= R (rhs nil means the literal 1 of ++/--).
func (it *Interp) assign(st, lhs, rhs *lang.Node, op string, fr *frame) {
	var v Value
	if op != "=" {
		cur := it.eval(lhs, fr)
		var r Value = IntV(1)
		if rhs != nil {
			r = it.eval(rhs, fr)
		}
		v = it.Binary(compoundOps[op], cur, r)
	} else {
		v = it.eval(rhs, fr)
	}
	// selectors, last to first
	var sels []Value
	e := lhs
	for e.K == "index" || e.K == "selector" {
		if e.K == "index" {
			sels = append(sels, it.eval(e.Kids[1], fr))
		} else {
			sels = append(sels, StrV(e.S))
		}
		e = e.Kids[0]
	}
	d := e.Ref
	if len(sels) == 0 {
		c := it.lookup(d, fr)
		if c == nil {
			abort("uninit: assignment to a variable whose definition has not executed")
		}
		c.V = v
		return
	}
	it.Stats.SelAssigns++
	c := it.lookup(d, fr)
	if c == nil || c.V == nil {
		abort("uninit: read of a variable whose definition has not executed")
	}
	dst := c.V
	// sels[0] is the last selector; walk from the first selector (end of the
	// slice) down to the one before last
	for i := len(sels) - 1; i > 0; i-- {
		dst = it.IndexGet(dst, sels[i])
	}
	it.IndexSet(dst, sels[0], v)
}

// ---------- expressions ----------

func (it *Interp) eval(e *lang.Node, fr *frame) Value {
	it.step()
	switch e.K {
	case "int":
		return IntV(e.I)
	case "float":
		return FloatV(e.F)
	case "char":
		return CharV(rune(e.I))
	case "string":
		return StrV(string(e.Bs))
	case "bool":
		return BoolV(e.B)
	case "undefined":
		return Undef
	case "ident":
		return it.readVar(e, fr)
	case "array":
		elems := make([]Value, len(e.Kids))
		for i, k := range e.Kids {
			elems[i] = it.eval(k, fr)
		}
		it.allocKind("array")
		return it.Pol.NewArr(elems)
	case "map":
		m := make(map[string]Value, len(e.Kids))
		for i, k := range e.Kids {
			m[e.Keys[i]] = it.eval(k, fr)
		}
		it.allocKind("map")
		return &MapV{Ms: &MapStore{M: m}}
	case "unary":
		x := it.eval(e.Kids[0], fr)
		switch e.S {
		case "!":
			return BoolV(!Truthy(x))
		case "+":
			return x
		case "-":
			switch y := x.(type) {
			case IntV:
				it.allocKind("unary")
				return IntV(-y)
			case FloatV:
				it.allocKind("unary")
				return FloatV(-y)
			}
			rtErr("invalid-op", "invalid operation: -%s", TypeName(x))
		case "^":
			if y, ok := x.(IntV); ok {
				it.allocKind("unary")
				return IntV(^y)
			}
			rtErr("invalid-op", "invalid operation: ^%s", TypeName(x))
		}
		panic("ref: unknown unary " + e.S)
	case "binary":
		switch e.S {
		case "&&":
			l := it.eval(e.Kids[0], fr)
			if !Truthy(l) {
				return l
			}
			return it.eval(e.Kids[1], fr)
		case "||":
			l := it.eval(e.Kids[0], fr)
			if Truthy(l) {
				return l
			}
			return it.eval(e.Kids[1], fr)
		}
		l := it.eval(e.Kids[0], fr)
		r := it.eval(e.Kids[1], fr)
		if TypeName(l) != TypeName(r) {
			it.Stats.Coercions++
		}
		if e.S != "==" && e.S != "!=" {
			if it.Stats.AllocKinds == nil {
				it.Stats.AllocKinds = map[string]int{}
			}
			it.Stats.AllocKinds["binary"]++
		}
		return it.Binary(e.S, l, r)
	case "cond":
		if Truthy(it.eval(e.Kids[0], fr)) {
			return it.eval(e.Kids[1], fr)
		}
		return it.eval(e.Kids[2], fr)
	case "index":
		b := it.eval(e.Kids[0], fr)
		i := it.eval(e.Kids[1], fr)
		return it.IndexExpr(b, i)
	case "selector":
		b := it.eval(e.Kids[0], fr)
		return it.IndexExpr(b, StrV(e.S))
	case "slice":
		b := it.eval(e.Kids[0], fr)
		var lo, hi Value = Undef, Undef
		if e.Kids[1] != nil {
			lo = it.eval(e.Kids[1], fr)
		}
		if e.Kids[2] != nil {
			hi = it.eval(e.Kids[2], fr)
		}
		if it.Stats.AllocKinds == nil {
			it.Stats.AllocKinds = map[string]int{}
		}
		it.Stats.AllocKinds["slice"]++
		return it.SliceOf(b, lo, hi)
	case "call":
		return it.call(e, fr)
	case "func":
		it.Stats.Closures++
		f := &FuncV{Node: e, Module: fr.mod}
		if len(e.Free) > 0 {
			it.Stats.Captures++
			f.Captured = make(map[int]*Cell, len(e.Free))
			for _, d := range e.Free {
				c := fr.cells[d.ID]
				if c == nil {
					// captured before its first assignment: the variable
					// exists with the value undefined
					c = &Cell{V: Undef}
					fr.cells[d.ID] = c
				}
				f.Captured[d.ID] = c
			}
			it.allocKind("closure")
		}
		return f
	case "error":
		v := it.eval(e.Kids[0], fr)
		it.allocKind("error")
		return &ErrV{V: v}
	case "immutable":
		return it.immutable(it.eval(e.Kids[0], fr))
	case "import":
		return it.importMod(e, fr)
	}
	panic("ref: unknown expression " + e.K)
}

func (it *Interp) importMod(e *lang.Node, fr *frame) Value {
	if body, ok := it.Prog.Modules[e.S]; ok {
		// each evaluation runs the module body afresh
		it.enter()
		defer it.leave()
		mf := &frame{cells: map[int]*Cell{}, mod: e.S}
		c, v := it.execBlockNoScope(body.Kids, mf)
		if c == ctlReturn {
			return v
		}
		return Undef
	}
	if attrs, ok := it.HostMods[e.S]; ok {
		if m, ok := it.modSite[e.S]; ok {
			return m
		}
		mm := make(map[string]Value, len(attrs)+1)
		for k, v := range attrs {
			mm[k] = it.CopyValue(v, 0)
		}
		mm["__module_name__"] = StrV(e.S)
		m := &MapV{Ms: &MapStore{M: mm}, Imm: true}
		it.modSite[e.S] = m
		return m
	}
	panic("ref: import of unknown module " + e.S)
}

func (it *Interp) enter() {
	it.depth++
	if it.depth > it.Stats.MaxDepth {
		it.Stats.MaxDepth = it.depth
	}
	if it.depth > it.MaxDepthLim {
		abort("limits: call depth beyond reference bound")
	}
}

func (it *Interp) leave() { it.depth-- }

func (it *Interp) call(e *lang.Node, fr *frame) Value {
	callee := it.eval(e.Kids[0], fr)
	args := make([]Value, 0, len(e.Kids)-1)
	for _, a := range e.Kids[1:] {
		args = append(args, it.eval(a, fr))
	}
	if len(args) > 250 {
		abort("limits: more than 250 call arguments")
	}
	switch callee.(type) {
	case *FuncV, *BuiltinV, *HostFnV:
	default:
		rtErr("not-callable", "not callable: %s", TypeName(callee))
	}
	if e.B {
		it.Stats.Spreads++
		last := args[len(args)-1]
		arr, ok := last.(*ArrV)
		if !ok {
			rtErr("not-array", "not an array: %s", TypeName(last))
		}
		if arr.N > 200 {
			abort("limits: spread of a long array (operand stack)")
		}
		args = append(args[:len(args)-1], arr.Elems()...)
	}
	it.Stats.Calls++
	switch f := callee.(type) {
	case *FuncV:
		return it.callFunc(f, args)
	case *BuiltinV:
		it.Stats.Builtins++
		v := it.callBuiltin(f.Impl, args)
		it.allocKind("builtin-call")
		return v
	case *HostFnV:
		v := it.callHost(f.Name, args)
		it.allocKind("host-call")
		return v
	}
	return nil
}

// CallValue calls a function value with arguments (used by harnesses).
func (it *Interp) callFunc(f *FuncV, args []Value) Value {
	node := f.Node
	np := len(node.Params)
	if node.B {
		if len(args) < np-1 {
			rtErr("wrong-args", "wrong number of arguments: want>=%d, got=%d", np-1, len(args))
		}
		rest := append([]Value(nil), args[np-1:]...)
		args = append(append([]Value(nil), args[:np-1]...), it.Pol.NewArr(rest))
	} else if len(args) != np {
		rtErr("wrong-args", "wrong number of arguments: want=%d, got=%d", np, len(args))
	}
	it.enter()
	defer it.leave()
	it.Stats.FuncsCalled[node.ID] = true
	nf := &frame{cells: make(map[int]*Cell, len(f.Captured)+np+4), mod: f.Module}
	for id, c := range f.Captured {
		nf.cells[id] = c
	}
	for i, d := range node.PD {
		nf.cells[d.ID] = &Cell{V: args[i]}
	}
	c, v := it.execBlock(node.Kids[0], nf)
	if c == ctlReturn {
		return v
	}
	return Undef
}

func (it *Interp) callHost(name string, args []Value) Value {
	switch name {
	case "hf_len":
		return IntV(len(args))
	case "hf_first":
		if len(args) == 0 {
			return Undef // host returned nil
		}
		return args[0]
	case "hf_err":
		rtErr("host-error", "host function failed")
	case "hf_pack":
		return it.Pol.NewArr(append([]Value{}, args...))
	case "hf_args":
		if len(args) != 2 {
			rtErr("wrong-args", "wrong number of arguments in call to 'user-function:hf_args'")
		}
		return it.Pol.NewArr([]Value{args[1], args[0]})
	}
	panic(fmt.Sprintf("ref: unknown host function %q", name))
}
