package ref

import (
	"fmt"
	"math"
	"strconv"
	"time"
)

// RuntimeError is a run-time failure of the interpreted program.
type RuntimeError struct {
	Kind string // invalid-op not-callable wrong-args not-indexable index-type oob not-assignable slice-type slice-bounds not-iterable not-array arg-type div-zero range-step error-index host-error string-limit bytes-limit alloc-limit stack-overflow
	Msg  string
	Node int // node id where it happened (0 unknown)
}

func (e *RuntimeError) Error() string { return e.Kind + ": " + e.Msg }

// Abort is raised when the case leaves the domain the reference decides
// (cyclic container created, step budget, static VM limits, size limits).
type Abort struct {
	Reason string
}

func (a *Abort) Error() string { return "abort: " + a.Reason }

func rtErr(kind, format string, args ...interface{}) {
	panic(&RuntimeError{Kind: kind, Msg: fmt.Sprintf(format, args...)})
}

func abort(reason string) { panic(&Abort{Reason: reason}) }

// MaxStr is the size above which the reference gives up on a case (the
// default engine limits are 2^31-1; cases are kept far below).
const MaxStr = 1 << 16

func (it *Interp) checkStr(n int) {
	if it.MaxStringLen > 0 && n > it.MaxStringLen {
		rtErr("string-limit", "exceeding string size limit")
	}
	if n > MaxStr {
		abort("size: string beyond reference bound")
	}
}

func (it *Interp) checkBytes(n int) {
	if it.MaxBytesLen > 0 && n > it.MaxBytesLen {
		rtErr("bytes-limit", "exceeding bytes size limit")
	}
	if n > MaxStr {
		abort("size: bytes beyond reference bound")
	}
}

func b2v(b bool) Value { return BoolV(b) }

// Binary evaluates a non-logical binary operator.
func (it *Interp) Binary(op string, l, r Value) Value {
	if op == "==" || op == "!=" {
		big(l)
		big(r)
	}
	if op == "==" {
		return b2v(Equal(l, r))
	}
	if op == "!=" {
		return b2v(!Equal(l, r))
	}
	v := it.binaryRaw(op, l, r)
	it.alloc()
	return v
}

func (it *Interp) binaryRaw(op string, l, r Value) Value {
	switch a := l.(type) {
	case IntV:
		switch b := r.(type) {
		case IntV:
			x, y := int64(a), int64(b)
			switch op {
			case "+":
				return IntV(x + y)
			case "-":
				return IntV(x - y)
			case "*":
				return IntV(x * y)
			case "/":
				if y == 0 {
					rtErr("div-zero", "integer divide by zero")
				}
				if y == -1 {
					return IntV(-x)
				}
				return IntV(x / y)
			case "%":
				if y == 0 {
					rtErr("div-zero", "integer divide by zero")
				}
				if y == -1 {
					return IntV(0)
				}
				return IntV(x % y)
			case "&":
				return IntV(x & y)
			case "|":
				return IntV(x | y)
			case "^":
				return IntV(x ^ y)
			case "&^":
				return IntV(x &^ y)
			case "<<":
				return IntV(x << uint64(y))
			case ">>":
				return IntV(x >> uint64(y))
			case "<":
				return b2v(x < y)
			case "<=":
				return b2v(x <= y)
			case ">":
				return b2v(x > y)
			case ">=":
				return b2v(x >= y)
			}
		case FloatV:
			if v, ok := floatOp(op, float64(a), float64(b)); ok {
				return v
			}
		case CharV:
			x, y := int64(a), rune(b)
			switch op {
			case "+":
				return CharV(rune(x) + y)
			case "-":
				return CharV(rune(x) - y)
			case "<":
				return b2v(x < int64(y))
			case "<=":
				return b2v(x <= int64(y))
			case ">":
				return b2v(x > int64(y))
			case ">=":
				return b2v(x >= int64(y))
			}
		}
	case FloatV:
		switch b := r.(type) {
		case FloatV:
			if v, ok := floatOp(op, float64(a), float64(b)); ok {
				return v
			}
		case IntV:
			if v, ok := floatOp(op, float64(a), float64(b)); ok {
				return v
			}
		}
	case CharV:
		switch b := r.(type) {
		case CharV:
			x, y := rune(a), rune(b)
			switch op {
			case "+":
				return CharV(x + y)
			case "-":
				return CharV(x - y)
			case "<":
				return b2v(x < y)
			case "<=":
				return b2v(x <= y)
			case ">":
				return b2v(x > y)
			case ">=":
				return b2v(x >= y)
			}
		case IntV:
			x, y := rune(a), int64(b)
			switch op {
			case "+":
				return CharV(x + rune(y))
			case "-":
				return CharV(x - rune(y))
			case "<":
				return b2v(int64(x) < y)
			case "<=":
				return b2v(int64(x) <= y)
			case ">":
				return b2v(int64(x) > y)
			case ">=":
				return b2v(int64(x) >= y)
			}
		}
	case StrV:
		switch op {
		case "+":
			var rs string
			if b, ok := r.(StrV); ok {
				rs = string(b)
			} else {
				big(r)
				rs = it.Pol.Str(r, 0)
				it.noteMapRender(r)
			}
			it.checkStr(len(a) + len(rs))
			return StrV(string(a) + rs)
		case "<", "<=", ">", ">=":
			if b, ok := r.(StrV); ok {
				switch op {
				case "<":
					return b2v(a < b)
				case "<=":
					return b2v(a <= b)
				case ">":
					return b2v(a > b)
				default:
					return b2v(a >= b)
				}
			}
		}
	case BytesV:
		if b, ok := r.(BytesV); ok && op == "+" {
			it.checkBytes(len(a) + len(b))
			return BytesV(string(a) + string(b))
		}
	case TimeV:
		switch b := r.(type) {
		case IntV:
			switch op {
			case "+":
				return TimeV{a.T.Add(time.Duration(b))}
			case "-":
				return TimeV{a.T.Add(time.Duration(-b))}
			}
		case TimeV:
			switch op {
			case "-":
				return IntV(int64(a.T.Sub(b.T)))
			case "<":
				return b2v(a.T.Before(b.T))
			case ">":
				return b2v(a.T.After(b.T))
			case "<=":
				return b2v(a.T.Equal(b.T) || a.T.Before(b.T))
			case ">=":
				return b2v(a.T.Equal(b.T) || a.T.After(b.T))
			}
		}
	case *ArrV:
		if b, ok := r.(*ArrV); ok && op == "+" && a.Imm == b.Imm {
			// documented: + yields a new array (never aliases an operand)
			elems := append(a.Elems(), b.Elems()...)
			if len(elems) > MaxStr {
				abort("size: array beyond reference bound")
			}
			return it.Pol.NewArr(elems)
		}
	}
	rtErr("invalid-op", "invalid operation: %s %s %s", TypeName(l), op, TypeName(r))
	return nil
}

func floatOp(op string, x, y float64) (Value, bool) {
	switch op {
	case "+":
		return FloatV(x + y), true
	case "-":
		return FloatV(x - y), true
	case "*":
		return FloatV(x * y), true
	case "/":
		return FloatV(x / y), true
	case "<":
		return b2v(x < y), true
	case "<=":
		return b2v(x <= y), true
	case ">":
		return b2v(x > y), true
	case ">=":
		return b2v(x >= y), true
	}
	return nil, false
}

// Equal is the language's == .
func Equal(l, r Value) bool {
	switch a := l.(type) {
	case IntV:
		switch b := r.(type) {
		case IntV:
			return a == b
		case FloatV:
			return float64(a) == float64(b)
		}
	case FloatV:
		switch b := r.(type) {
		case FloatV:
			return float64(a) == float64(b)
		case IntV:
			return float64(a) == float64(b)
		}
	case CharV:
		b, ok := r.(CharV)
		return ok && a == b
	case StrV:
		b, ok := r.(StrV)
		return ok && a == b
	case BytesV:
		b, ok := r.(BytesV)
		return ok && a == b
	case BoolV:
		b, ok := r.(BoolV)
		return ok && a == b
	case UndefV:
		_, ok := r.(UndefV)
		return ok
	case TimeV:
		b, ok := r.(TimeV)
		return ok && a.T.Equal(b.T)
	case *ErrV:
		b, ok := r.(*ErrV)
		return ok && a == b
	case *ArrV:
		b, ok := r.(*ArrV)
		if !ok || a.N != b.N {
			return false
		}
		for i := 0; i < a.N; i++ {
			if !Equal(a.At(i), b.At(i)) {
				return false
			}
		}
		return true
	case *MapV:
		b, ok := r.(*MapV)
		if !ok || len(a.Ms.M) != len(b.Ms.M) {
			return false
		}
		for k, v := range a.Ms.M {
			w, ok := b.Ms.M[k]
			if !ok || !Equal(v, w) {
				return false
			}
		}
		return true
	}
	return false // functions are never equal
}

// toStringIdx is ToString applied to an index: ok=false only for undefined.
func (it *Interp) toStringIdx(v Value) (string, bool) {
	switch x := v.(type) {
	case UndefV:
		return "", false
	case StrV:
		return string(x), true
	}
	it.noteMapRender(v)
	big(v)
	return it.Pol.Str(v, 0), true
}

// toInt is the documented int coercion (index assignment).
func toInt(v Value) (int, bool) {
	switch x := v.(type) {
	case IntV:
		return int(x), true
	case FloatV:
		return int(float64(x)), true
	case CharV:
		return int(x), true
	case BoolV:
		if x {
			return 1, true
		}
		return 0, true
	case StrV:
		c, err := strconv.ParseInt(string(x), 10, 64)
		if err == nil {
			return int(c), true
		}
	}
	return 0, false
}

// IndexGet reads base[idx] on the way to an element that is assigned to
// (x[i][j] = v reads x[i]); a base that cannot be indexed is named in the
// message, as indexAssign in vm.go does.
func (it *Interp) IndexGet(base, idx Value) Value { return it.indexGet(base, idx, false) }

// IndexExpr evaluates the expression base[idx] / base.name. The VM's OpIndex
// names the type of the INDEX operand in "not indexable: <type>" (vm.go,
// index.TypeName()); the message is part of what the stability filter and the
// differential checks compare, so it is reproduced as it is.
func (it *Interp) IndexExpr(base, idx Value) Value { return it.indexGet(base, idx, true) }

func (it *Interp) indexGet(base, idx Value, exprForm bool) Value {
	switch b := base.(type) {
	case *ArrV:
		i, ok := idx.(IntV)
		if !ok {
			rtErr("index-type", "invalid index type: %s", TypeName(idx))
		}
		if i < 0 || int64(i) >= int64(b.N) {
			return Undef
		}
		return b.At(int(i))
	case StrV:
		i, ok := idx.(IntV)
		if !ok {
			rtErr("index-type", "invalid index type: %s", TypeName(idx))
		}
		rs := []rune(string(b))
		if i < 0 || int64(i) >= int64(len(rs)) {
			return Undef
		}
		return CharV(rs[i])
	case BytesV:
		i, ok := idx.(IntV)
		if !ok {
			rtErr("index-type", "invalid index type: %s", TypeName(idx))
		}
		if i < 0 || int64(i) >= int64(len(b)) {
			return Undef
		}
		return IntV(b[i])
	case *MapV:
		k, ok := it.toStringIdx(idx)
		if !ok {
			rtErr("index-type", "invalid index type: %s", TypeName(idx))
		}
		if v, ok := b.Ms.M[k]; ok {
			return v
		}
		return Undef
	case *ErrV:
		k, _ := it.toStringIdx(idx)
		if k != "value" {
			rtErr("error-index", "invalid index on error")
		}
		return b.V
	case UndefV:
		return Undef
	case *GoModV:
		abort("go module attribute access is not modelled")
	}
	if exprForm {
		rtErr("not-indexable", "not indexable: %s", TypeName(idx))
	}
	rtErr("not-indexable", "not indexable: %s", TypeName(base))
	return nil
}

// IndexSet performs dst[idx] = v on the final container.
func (it *Interp) IndexSet(dst, idx, v Value) {
	switch d := dst.(type) {
	case *ArrV:
		if d.Imm {
			break
		}
		i, ok := toInt(idx)
		if !ok {
			rtErr("index-type", "invalid index type: %s", TypeName(idx))
		}
		if i < 0 || i >= d.N {
			rtErr("oob", "index out of bounds")
		}
		it.occurs(dst, v)
		d.Set(i, v)
		return
	case *MapV:
		if d.Imm {
			break
		}
		k, ok := it.toStringIdx(idx)
		if !ok {
			rtErr("index-type", "invalid index type: %s", TypeName(idx))
		}
		it.checkStr(len(k))
		it.occurs(dst, v)
		d.Ms.M[k] = v
		return
	}
	rtErr("not-assignable", "not index-assignable: %s", TypeName(dst))
}

// occurs aborts the case when storing v into container dst would create a
// cyclic structure (excluded by the property).
func (it *Interp) occurs(dst, v Value) {
	var dstStore interface{}
	switch d := dst.(type) {
	case *ArrV:
		dstStore = d.St
	case *MapV:
		dstStore = d.Ms
	default:
		return
	}
	seen := map[interface{}]bool{}
	var walk func(x Value) bool
	walk = func(x Value) bool {
		switch y := x.(type) {
		case *ArrV:
			if y.St == dstStore {
				return true
			}
			if seen[y] {
				return false
			}
			seen[y] = true
			for i := 0; i < y.N; i++ {
				if walk(y.At(i)) {
					return true
				}
			}
		case *MapV:
			if y.Ms == dstStore {
				return true
			}
			if seen[y.Ms] {
				return false
			}
			seen[y.Ms] = true
			for _, e := range y.Ms.M {
				if walk(e) {
					return true
				}
			}
		case *ErrV:
			if seen[y] {
				return false
			}
			seen[y] = true
			return walk(y.V)
		}
		return false
	}
	if walk(v) {
		abort("cyclic: a container would contain itself")
	}
}

// SliceOf evaluates base[lo:hi]; lo/hi are Undef when omitted.
func (it *Interp) SliceOf(base, lo, hi Value) Value {
	var lowIdx int64
	if _, isU := lo.(UndefV); !isU {
		l, ok := lo.(IntV)
		if !ok {
			rtErr("slice-type", "invalid slice index type: %s", TypeName(lo))
		}
		lowIdx = int64(l)
	}
	var n int64
	switch b := base.(type) {
	case *ArrV:
		n = int64(b.N)
	case StrV:
		n = int64(len(b))
	case BytesV:
		n = int64(len(b))
	default:
		rtErr("not-indexable", "not indexable: %s", TypeName(base))
	}
	highIdx := n
	if _, isU := hi.(UndefV); !isU {
		h, ok := hi.(IntV)
		if !ok {
			rtErr("slice-type", "invalid slice index type: %s", TypeName(hi))
		}
		highIdx = int64(h)
	}
	if lowIdx > highIdx {
		rtErr("slice-bounds", "invalid slice index: %d > %d", lowIdx, highIdx)
	}
	clamp := func(x int64) int64 {
		if x < 0 {
			return 0
		}
		if x > n {
			return n
		}
		return x
	}
	lowIdx, highIdx = clamp(lowIdx), clamp(highIdx)
	it.alloc()
	switch b := base.(type) {
	case *ArrV:
		if b.Imm {
			// a slice of an immutable array is a new (mutable) array that
			// must not share the immutable storage
			return it.Pol.NewArr(b.Elems()[lowIdx:highIdx])
		}
		return &ArrV{St: b.St, Off: b.Off + int(lowIdx), N: int(highIdx - lowIdx),
			Cap: it.Pol.sliceCap(b, int(lowIdx), int(highIdx))}
	case StrV:
		return StrV(string(b)[lowIdx:highIdx])
	case BytesV:
		return BytesV(string(b)[lowIdx:highIdx])
	}
	return nil
}

// noteMapRender records that a map with >= 2 keys was rendered to text (an
// order-dependent operation unless both orders give the same final result).
func (it *Interp) noteMapRender(v Value) {
	it.Stats.MapRenders++
}

// CopyValue is the copy() builtin: deep copy, immutable -> mutable.
func (it *Interp) CopyValue(v Value, depth int) Value {
	if depth == 0 {
		big(v)
	}
	if depth > 200 {
		abort("size: nesting beyond reference bound")
	}
	switch x := v.(type) {
	case *ArrV:
		elems := make([]Value, x.N)
		for i := range elems {
			elems[i] = it.CopyValue(x.At(i), depth+1)
		}
		return it.Pol.NewArr(elems)
	case *MapV:
		m := make(map[string]Value, len(x.Ms.M))
		for k, e := range x.Ms.M {
			m[k] = it.CopyValue(e, depth+1)
		}
		return &MapV{Ms: &MapStore{M: m}}
	case *ErrV:
		return &ErrV{V: it.CopyValue(x.V, depth+1)}
	}
	return v
}

// float to int64 conversion as Go performs it on this platform.
func f2i(f float64) int64 { return int64(f) }

var _ = math.Inf

// TreeSize returns the number of nodes of v when shared sub-structures are
// expanded (what rendering, copying or comparing the value costs), stopping
// at limit.
func TreeSize(v Value, limit int) int {
	n := 0
	var walk func(x Value, d int)
	walk = func(x Value, d int) {
		if n > limit || d > 300 {
			n = limit + 1
			return
		}
		n++
		switch y := x.(type) {
		case *ArrV:
			for i := 0; i < y.N && n <= limit; i++ {
				walk(y.At(i), d+1)
			}
		case *MapV:
			for _, e := range y.Ms.M {
				if n > limit {
					return
				}
				walk(e, d+1)
			}
		case *ErrV:
			walk(y.V, d+1)
		case StrV:
			n += len(y) / 16
		case BytesV:
			n += len(y) / 16
		}
	}
	walk(v, 0)
	return n
}

const maxTree = 50000

// big aborts the case when expanding v is beyond the reference's bound
// (exponentially shared structures).
func big(v Value) {
	if TreeSize(v, maxTree) > maxTree {
		abort("size: value too large to render / copy / compare")
	}
}
