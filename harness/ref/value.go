// Package ref is an independent tree-walking reference interpreter for the
// tengo language, written from docs/*.md (and, where the docs are silent,
// from the observed behaviour of the per-type methods). It shares no code with
// package tengo and does not import it: scanner, parser, compiler, optimizer,
// symbol resolution and VM are all on the other side of the differential.
package ref

import (
	"fmt"
	"math"
	"sort"
	"strconv"
	"strings"
	"time"

	"verifharness/lang"
)

// Value is a reference-interpreter value.
type Value interface{}

type (
	IntV   int64
	FloatV float64
	CharV  rune
	BoolV  bool
	StrV   string
	BytesV string // immutable byte string
	UndefV struct{}
	TimeV  struct{ T time.Time }
)

// Undef is the undefined value.
var Undef = UndefV{}

// Store is a backing array shared by array views (Go-like slices).
type Store struct {
	Data []Value
}

// ArrV is an array object (pointer identity): a view into a store.
type ArrV struct {
	St  *Store
	Off int
	N   int
	Cap int
	Imm bool
}

// MapStore is the storage shared by a map and its immutable() aliases.
type MapStore struct {
	M map[string]Value
}

// MapV is a map object.
type MapV struct {
	Ms  *MapStore
	Imm bool
}

// ErrV is an error value (equality is identity).
type ErrV struct {
	V Value
}

// FuncV is a closure.
type FuncV struct {
	Node     *lang.Node
	Captured map[int]*Cell // by Decl.ID
	Module   string        // module the function belongs to ("" main)
}

// BuiltinV is a builtin function.
type BuiltinV struct {
	Name string // reported name (copy() of a builtin loses it)
	Impl string // which builtin it is
}

// HostFnV is a function provided by the host as an input variable.
type HostFnV struct {
	Name string
}

// GoModV is an opaque builtin (Go) module table that the reference does not
// model beyond identity.
type GoModV struct {
	Name string
}

// Cell is a variable.
type Cell struct {
	V Value
}

const infCap = math.MaxInt32

// Policy fixes the choices the language leaves open, so that programs whose
// result depends on them can be detected by running under several policies.
type Policy struct {
	Cap      string // "exact": capacity always equals length (append never aliases); "spare": creation cap n+2, growth 2n+2; "inf": unlimited capacity (append always in place)
	MapOrder string // order in which maps are iterated / rendered: "" or "asc", "desc", "hash" (by a hash of the key), "rot" (ascending, rotated by half)
	// Ch, when set, decides the order of every map traversal (of two or more
	// keys) separately: refx.AllOutcomes enumerates all decisions.
	Ch *Chooser
	// Orders, when set (ref.Run points it at Stats.MapOrders), counts the
	// traversals (iteration or rendering) of maps with two or more keys
	Orders *int
}

// Chooser replays a prefix of decisions and takes option 0 afterwards; Trace
// records every decision point met, so that the caller can enumerate the tree.
type Chooser struct {
	Prefix []int
	Trace  []Choice
}

// Choice is one decision point: Pick out of N options.
type Choice struct{ N, Pick int }

func (c *Chooser) next(n int) int {
	pick := 0
	if i := len(c.Trace); i < len(c.Prefix) && c.Prefix[i] < n {
		pick = c.Prefix[i]
	}
	c.Trace = append(c.Trace, Choice{N: n, Pick: pick})
	return pick
}

// orderOptions is the number of orders offered for a map of n keys: every
// permutation up to 4 keys, beyond that every rotation of the ascending and of
// the descending order (so that every key comes first and last at least once).
func orderOptions(n int) int {
	switch {
	case n < 2:
		return 1
	case n <= 4:
		f := 1
		for i := 2; i <= n; i++ {
			f *= i
		}
		return f
	}
	return 2 * n
}

// permute returns the k-th order of the (sorted) keys, see orderOptions.
func permute(keys []string, k int) []string {
	n := len(keys)
	if n <= 4 {
		pool := append([]string{}, keys...)
		out := make([]string, 0, n)
		for i := n; i >= 1; i-- {
			f := 1
			for j := 2; j < i; j++ {
				f *= j
			}
			idx := k / f
			k %= f
			out = append(out, pool[idx])
			pool = append(pool[:idx], pool[idx+1:]...)
		}
		return out
	}
	base := append([]string{}, keys...)
	if k >= n {
		for i, j := 0, n-1; i < j; i, j = i+1, j-1 {
			base[i], base[j] = base[j], base[i]
		}
		k -= n
	}
	return append(append([]string{}, base[k:]...), base[:k]...)
}

func (p Policy) String() string {
	o := p.MapOrder
	if o == "" {
		o = "asc"
	}
	return p.Cap + "/" + o
}

// Policies are the configurations a case is evaluated under: three capacity
// behaviours and four unrelated map orders, so that a result that depends on
// either differs between at least two of them.
var Policies = []Policy{{Cap: "exact"}, {Cap: "inf", MapOrder: "desc"}, {Cap: "spare", MapOrder: "hash"}, {Cap: "exact", MapOrder: "rot"}}

func (p Policy) createCap(n int) int {
	switch p.Cap {
	case "exact":
		return n
	case "inf":
		return infCap
	}
	return n + 2
}

func (p Policy) growCap(n int) int {
	switch p.Cap {
	case "exact":
		return n
	case "inf":
		return infCap
	}
	return 2*n + 2
}

func (p Policy) sliceCap(parent *ArrV, lo, hi int) int {
	switch p.Cap {
	case "exact":
		return hi - lo
	case "inf":
		return infCap
	}
	return parent.Cap - lo
}

// NewArr builds a fresh array from elems.
func (p Policy) NewArr(elems []Value) *ArrV {
	st := &Store{Data: append(make([]Value, 0, len(elems)), elems...)}
	return &ArrV{St: st, N: len(elems), Cap: p.createCap(len(elems))}
}

// At returns element i of the view.
func (a *ArrV) At(i int) Value {
	j := a.Off + i
	if j < len(a.St.Data) {
		if v := a.St.Data[j]; v != nil {
			return v
		}
	}
	return Undef
}

// Set writes element i of the view.
func (a *ArrV) Set(i int, v Value) {
	j := a.Off + i
	for len(a.St.Data) <= j {
		a.St.Data = append(a.St.Data, Undef)
	}
	a.St.Data[j] = v
}

// Elems copies the elements of the view.
func (a *ArrV) Elems() []Value {
	out := make([]Value, a.N)
	for i := range out {
		out[i] = a.At(i)
	}
	return out
}

// SortedKeys returns the map's keys in the policy's order.
func (p Policy) SortedKeys(m *MapV) []string {
	keys := make([]string, 0, len(m.Ms.M))
	for k := range m.Ms.M {
		keys = append(keys, k)
	}
	sort.Strings(keys)
	if p.Orders != nil && len(keys) >= 2 {
		*p.Orders++
	}
	if p.Ch != nil {
		if len(keys) < 2 {
			return keys
		}
		return permute(keys, p.Ch.next(orderOptions(len(keys))))
	}
	switch p.MapOrder {
	case "desc":
		for i, j := 0, len(keys)-1; i < j; i, j = i+1, j-1 {
			keys[i], keys[j] = keys[j], keys[i]
		}
	case "hash":
		sort.SliceStable(keys, func(i, j int) bool { return keyHash(keys[i]) < keyHash(keys[j]) })
	case "rot":
		h := (len(keys) + 1) / 2
		keys = append(append([]string{}, keys[h:]...), keys[:h]...)
	}
	return keys
}

// TypeName is the documented type name.
func TypeName(v Value) string {
	switch x := v.(type) {
	case IntV:
		return "int"
	case FloatV:
		return "float"
	case CharV:
		return "char"
	case BoolV:
		return "bool"
	case StrV:
		return "string"
	case BytesV:
		return "bytes"
	case UndefV:
		return "undefined"
	case TimeV:
		return "time"
	case *ArrV:
		if x.Imm {
			return "immutable-array"
		}
		return "array"
	case *MapV:
		if x.Imm {
			return "immutable-map"
		}
		return "map"
	case *ErrV:
		return "error"
	case *FuncV:
		return "compiled-function"
	case *BuiltinV:
		return "builtin-function:" + x.Name
	case *HostFnV:
		return "user-function:" + x.Name
	case *GoModV:
		return "immutable-map"
	}
	return fmt.Sprintf("?%T", v)
}

// Truthy implements the documented truthiness table.
func Truthy(v Value) bool {
	switch x := v.(type) {
	case IntV:
		return x != 0
	case FloatV:
		return !math.IsNaN(float64(x))
	case CharV:
		return x != 0
	case BoolV:
		return bool(x)
	case StrV:
		return len(x) != 0
	case BytesV:
		return len(x) != 0
	case UndefV:
		return false
	case TimeV:
		return !x.T.IsZero()
	case *ArrV:
		return x.N != 0
	case *MapV:
		return len(x.Ms.M) != 0
	case *ErrV:
		return false
	}
	return true // functions
}

// Str is the value's string form (what `"" + v` and string(v) use for
// non-string values).
func (p Policy) Str(v Value, depth int) string {
	if depth > 200 {
		return "<deep>"
	}
	switch x := v.(type) {
	case IntV:
		return strconv.FormatInt(int64(x), 10)
	case FloatV:
		return strconv.FormatFloat(float64(x), 'f', -1, 64)
	case CharV:
		return string(rune(x))
	case BoolV:
		if x {
			return "true"
		}
		return "false"
	case StrV:
		return strconv.Quote(string(x))
	case BytesV:
		return string(x)
	case UndefV:
		return "<undefined>"
	case TimeV:
		return x.T.String()
	case *ArrV:
		parts := make([]string, x.N)
		for i := 0; i < x.N; i++ {
			parts[i] = p.Str(x.At(i), depth+1)
		}
		return "[" + strings.Join(parts, ", ") + "]"
	case *MapV:
		var parts []string
		for _, k := range p.SortedKeys(x) {
			parts = append(parts, k+": "+p.Str(x.Ms.M[k], depth+1))
		}
		return "{" + strings.Join(parts, ", ") + "}"
	case *ErrV:
		return "error: " + p.Str(x.V, depth+1)
	case *FuncV:
		return "<compiled-function>"
	case *BuiltinV:
		return "<builtin-function>"
	case *HostFnV:
		return "<user-function>"
	case *GoModV:
		return "<module>"
	}
	return "?"
}

// Describe renders a value in exactly the format of tv.Describe, so that the
// reference's result and tengo's can be compared as strings.
func Describe(v Value) string {
	var sb strings.Builder
	describe(&sb, v, 0)
	return sb.String()
}

func describe(sb *strings.Builder, v Value, d int) {
	if v == nil {
		sb.WriteString("<GO-NIL>")
		return
	}
	if d > 64 {
		sb.WriteString("<DEEP>")
		return
	}
	switch x := v.(type) {
	case IntV:
		fmt.Fprintf(sb, "int(%d)", int64(x))
	case FloatV:
		f := float64(x)
		if f == 0 && math.Signbit(f) {
			sb.WriteString("float(-0)")
		} else {
			fmt.Fprintf(sb, "float(%s)", strconv.FormatFloat(f, 'g', -1, 64))
		}
	case CharV:
		fmt.Fprintf(sb, "char(%d)", rune(x))
	case StrV:
		fmt.Fprintf(sb, "string(%q)", string(x))
	case BytesV:
		fmt.Fprintf(sb, "bytes(%q)", string(x))
	case BoolV:
		if x {
			sb.WriteString("bool(true)")
		} else {
			sb.WriteString("bool(false)")
		}
	case UndefV:
		sb.WriteString("undefined")
	case TimeV:
		fmt.Fprintf(sb, "time(%d,%d,%s)", x.T.Unix(), x.T.Nanosecond(), x.T.Location())
	case *ErrV:
		sb.WriteString("error(")
		describe(sb, x.V, d+1)
		sb.WriteString(")")
	case *ArrV:
		if x.Imm {
			sb.WriteString("imm-array[")
		} else {
			sb.WriteString("array[")
		}
		for i := 0; i < x.N; i++ {
			if i > 0 {
				sb.WriteString(", ")
			}
			describe(sb, x.At(i), d+1)
		}
		sb.WriteString("]")
	case *MapV:
		if x.Imm {
			sb.WriteString("imm-map{")
		} else {
			sb.WriteString("map{")
		}
		keys := make([]string, 0, len(x.Ms.M))
		for k := range x.Ms.M {
			keys = append(keys, k)
		}
		sort.Strings(keys)
		for i, k := range keys {
			if i > 0 {
				sb.WriteString(", ")
			}
			fmt.Fprintf(sb, "%q: ", k)
			describe(sb, x.Ms.M[k], d+1)
		}
		sb.WriteString("}")
	case *FuncV:
		sb.WriteString("<function>")
	case *BuiltinV:
		sb.WriteString("<builtin:" + x.Name + ">")
	case *HostFnV:
		sb.WriteString("<user-function:" + x.Name + ">")
	case *GoModV:
		sb.WriteString("<gomodule:" + x.Name + ">")
	default:
		fmt.Fprintf(sb, "<%T>", v)
	}
}

func keyHash(s string) uint32 {
	h := uint32(2166136261)
	for i := 0; i < len(s); i++ {
		h ^= uint32(s[i])
		h *= 16777619
	}
	return h ^ h>>15
}
