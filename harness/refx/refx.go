// Package refx runs the reference interpreter under every policy and reports
// whether a case lies in the domain the properties quantify over (its result
// does not depend on append capacity or map order, creates no cyclic
// container, stays within the step budget and the VM's static limits).
package refx

import (
	"sort"
	"strconv"
	"strings"

	"verifharness/lang"
	"verifharness/ref"
)

// RunOne runs the reference once under pol with fresh inputs.
func RunOne(p *lang.Program, inputs map[string]*lang.Val, pol ref.Policy, cfg ref.Config) *ref.Outcome {
	memo := map[int]ref.Value{}
	in := map[string]ref.Value{}
	names := make([]string, 0, len(inputs))
	for k := range inputs {
		names = append(names, k)
	}
	sort.Strings(names)
	for _, k := range names {
		in[k] = ref.FromVal(inputs[k], pol, memo)
	}
	return ref.Run(p, in, pol, cfg)
}

// Stable returns the reference outcome, or a discard reason.
func Stable(p *lang.Program, inputs map[string]*lang.Val, cfg ref.Config) (*ref.Outcome, string) {
	return StableBy(p, inputs, cfg, (*ref.Outcome).Key)
}

// KeyWithAllocs also distinguishes outcomes by the number of tracked
// allocations (for checks that compare the VM's allocation count).
func KeyWithAllocs(o *ref.Outcome) string {
	return o.Key() + "|allocs=" + strconv.FormatInt(o.Stats.Allocs, 10)
}

// StableBy is Stable with the caller's notion of "same outcome".
func StableBy(p *lang.Program, inputs map[string]*lang.Val, cfg ref.Config, key func(*ref.Outcome) string) (*ref.Outcome, string) {
	var outs []*ref.Outcome
	for _, pol := range ref.Policies {
		o := RunOne(p, inputs, pol, cfg)
		if o.Status == "abort" {
			reason := o.Abort
			if i := strings.Index(reason, ":"); i > 0 {
				reason = reason[:i]
			}
			return o, "excluded:" + reason
		}
		outs = append(outs, o)
	}
	for _, o := range outs[1:] {
		if key(o) != key(outs[0]) {
			return outs[0], "excluded:capacity-or-map-order-dependent"
		}
	}
	return outs[0], ""
}

// AllOutcomes enumerates the orders in which the program's map traversals can
// run (every traversal of two or more keys is a separate decision, see
// ref.Chooser) under each append-capacity behaviour, and returns the distinct
// outcomes by Outcome.Key. complete is false when more than budget runs would
// be needed. It is the exhaustive counterpart of Stable's four fixed orders
// and is meant for the failure path of a check: a program for which it
// returns more than one outcome depends on map order or hidden capacity and
// is outside every property's domain, however the four fixed orders came out.
func AllOutcomes(p *lang.Program, inputs map[string]*lang.Val, cfg ref.Config, budget int, key func(*ref.Outcome) string) (outs map[string]*ref.Outcome, complete bool) {
	outs = map[string]*ref.Outcome{}
	complete = true
	runs := 0
	for _, capPol := range []string{"exact", "spare", "inf"} {
		prefix := []int{}
		for {
			if runs >= budget {
				return outs, false
			}
			runs++
			ch := &ref.Chooser{Prefix: prefix}
			o := RunOne(p, inputs, ref.Policy{Cap: capPol, Ch: ch}, cfg)
			outs[key(o)] = o
			// next leaf: bump the deepest decision that has options left
			tr := ch.Trace
			i := len(tr) - 1
			for i >= 0 && tr[i].Pick+1 >= tr[i].N {
				i--
			}
			if i < 0 {
				break
			}
			prefix = make([]int, i+1)
			for j := 0; j < i; j++ {
				prefix[j] = tr[j].Pick
			}
			prefix[i] = tr[i].Pick + 1
		}
	}
	return outs, complete
}

// OrderDependent reports whether exhaustive enumeration (AllOutcomes) finds
// more than one outcome; checks call it before reporting a mismatch.
func OrderDependent(p *lang.Program, inputs map[string]*lang.Val, cfg ref.Config) bool {
	return OrderDependentBy(p, inputs, cfg, (*ref.Outcome).Key)
}

// OrderDependentBy is OrderDependent with the caller's notion of "same outcome".
func OrderDependentBy(p *lang.Program, inputs map[string]*lang.Val, cfg ref.Config, key func(*ref.Outcome) string) bool {
	outs, _ := AllOutcomes(p, inputs, cfg, 600, key)
	return len(outs) > 1
}
