// Package refx runs the reference interpreter under every policy and reports
// whether a case lies in the domain the properties quantify over (its result
// does not depend on append capacity or map order, creates no cyclic
// container, stays within the step budget and the VM's static limits).
package refx

import (
	"sort"
	"strings"

	"verifharness/lang"
	"verifharness/ref"
)

// RunOne runs the reference once under pol with fresh inputs.
func RunOne(p *lang.Program, inputs map[string]*lang.Val, pol ref.Policy, cfg ref.Config) *ref.Outcome {
	memo := map[int]ref.Value{}
	in := map[string]ref.Value{}
	names := make([]string, 0, len(inputs))
	for k := range inputs {
		names = append(names, k)
	}
	sort.Strings(names)
	for _, k := range names {
		in[k] = ref.FromVal(inputs[k], pol, memo)
	}
	return ref.Run(p, in, pol, cfg)
}

// Stable returns the reference outcome, or a discard reason.
func Stable(p *lang.Program, inputs map[string]*lang.Val, cfg ref.Config) (*ref.Outcome, string) {
	var outs []*ref.Outcome
	for _, pol := range ref.Policies {
		o := RunOne(p, inputs, pol, cfg)
		if o.Status == "abort" {
			reason := o.Abort
			if i := strings.Index(reason, ":"); i > 0 {
				reason = reason[:i]
			}
			return o, "excluded:" + reason
		}
		outs = append(outs, o)
	}
	for _, o := range outs[1:] {
		if o.Key() != outs[0].Key() {
			return outs[0], "excluded:capacity-or-map-order-dependent"
		}
	}
	return outs[0], ""
}
