package tv

import (
	"encoding/hex"
	"fmt"
	"math"
	"sort"
	"strconv"
	"time"

	"github.com/d5/tengo/v2"
)

// Spec is a JSON-serialisable description of a tengo value, used in replay
// files. Strings/bytes are hex-encoded so invalid UTF-8 survives; floats carry
// their bit pattern.
type Spec struct {
	T    string  `json:"t"`
	I    int64   `json:"i,omitempty"`
	Bits string  `json:"bits,omitempty"` // float bits, hex
	Hex  string  `json:"hex,omitempty"`  // string / bytes content
	Txt  string  `json:"txt,omitempty"`  // human-readable echo only
	B    bool    `json:"b,omitempty"`
	Sec  int64   `json:"sec,omitempty"`
	Nsec int64   `json:"nsec,omitempty"`
	Zone int     `json:"zone,omitempty"` // offset seconds; -1 => zero time
	Name string  `json:"name,omitempty"`
	Kids []*Spec `json:"kids,omitempty"`
	Keys []string `json:"keys,omitempty"` // hex-encoded map keys, parallel to Kids
}

// FromObject converts a value to its Spec.
func FromObject(o tengo.Object) *Spec {
	switch v := o.(type) {
	case nil:
		return &Spec{T: "gonil"}
	case *tengo.Int:
		return &Spec{T: "int", I: v.Value}
	case *tengo.Float:
		return &Spec{T: "float", Bits: strconv.FormatUint(math.Float64bits(v.Value), 16), Txt: strconv.FormatFloat(v.Value, 'g', -1, 64)}
	case *tengo.Char:
		return &Spec{T: "char", I: int64(v.Value)}
	case *tengo.String:
		return &Spec{T: "string", Hex: hex.EncodeToString([]byte(v.Value)), Txt: strconv.QuoteToASCII(v.Value)}
	case *tengo.Bytes:
		return &Spec{T: "bytes", Hex: hex.EncodeToString(v.Value), Txt: strconv.QuoteToASCII(string(v.Value))}
	case *tengo.Bool:
		return &Spec{T: "bool", B: !v.IsFalsy()}
	case *tengo.Undefined:
		return &Spec{T: "undefined"}
	case *tengo.Time:
		if v.Value.IsZero() && v.Value.Location() == time.UTC {
			return &Spec{T: "time", Zone: -1}
		}
		_, off := v.Value.Zone()
		return &Spec{T: "time", Sec: v.Value.Unix(), Nsec: int64(v.Value.Nanosecond()), Zone: off, Txt: v.Value.String()}
	case *tengo.Error:
		return &Spec{T: "error", Kids: []*Spec{FromObject(v.Value)}}
	case *tengo.Array:
		return seqSpec("array", v.Value)
	case *tengo.ImmutableArray:
		return seqSpec("imm-array", v.Value)
	case *tengo.Map:
		return mapSpec("map", v.Value)
	case *tengo.ImmutableMap:
		return mapSpec("imm-map", v.Value)
	case *tengo.BuiltinFunction:
		return &Spec{T: "builtin", Name: v.Name}
	case *tengo.UserFunction:
		return &Spec{T: "userfn", Name: v.Name}
	case *tengo.CompiledFunction:
		return &Spec{T: "function"}
	}
	return &Spec{T: "other", Txt: fmt.Sprintf("%T", o)}
}

func seqSpec(t string, xs []tengo.Object) *Spec {
	s := &Spec{T: t}
	for _, x := range xs {
		s.Kids = append(s.Kids, FromObject(x))
	}
	return s
}

func mapSpec(t string, m map[string]tengo.Object) *Spec {
	s := &Spec{T: t}
	keys := make([]string, 0, len(m))
	for k := range m {
		keys = append(keys, k)
	}
	sort.Strings(keys)
	for _, k := range keys {
		s.Keys = append(s.Keys, hex.EncodeToString([]byte(k)))
		s.Kids = append(s.Kids, FromObject(m[k]))
	}
	return s
}

// ToObject rebuilds the value.
func (s *Spec) ToObject() tengo.Object {
	if s == nil {
		return tengo.UndefinedValue
	}
	switch s.T {
	case "gonil":
		return nil
	case "int":
		return &tengo.Int{Value: s.I}
	case "float":
		b, _ := strconv.ParseUint(s.Bits, 16, 64)
		return &tengo.Float{Value: math.Float64frombits(b)}
	case "char":
		return &tengo.Char{Value: rune(s.I)}
	case "string":
		b, _ := hex.DecodeString(s.Hex)
		return &tengo.String{Value: string(b)}
	case "bytes":
		b, _ := hex.DecodeString(s.Hex)
		if b == nil {
			b = []byte{}
		}
		return &tengo.Bytes{Value: b}
	case "bool":
		if s.B {
			return tengo.TrueValue
		}
		return tengo.FalseValue
	case "time":
		if s.Zone == -1 {
			return &tengo.Time{}
		}
		loc := time.UTC
		if s.Zone != 0 {
			loc = time.FixedZone("Z", s.Zone)
		}
		return &tengo.Time{Value: time.Unix(s.Sec, s.Nsec).In(loc)}
	case "error":
		var inner tengo.Object = tengo.UndefinedValue
		if len(s.Kids) > 0 {
			inner = s.Kids[0].ToObject()
		}
		return &tengo.Error{Value: inner}
	case "array", "imm-array":
		xs := make([]tengo.Object, 0, len(s.Kids))
		for _, k := range s.Kids {
			xs = append(xs, k.ToObject())
		}
		if s.T == "array" {
			return &tengo.Array{Value: xs}
		}
		return &tengo.ImmutableArray{Value: xs}
	case "map", "imm-map":
		m := make(map[string]tengo.Object, len(s.Kids))
		for i, k := range s.Kids {
			kb, _ := hex.DecodeString(s.Keys[i])
			m[string(kb)] = k.ToObject()
		}
		if s.T == "map" {
			return &tengo.Map{Value: m}
		}
		return &tengo.ImmutableMap{Value: m}
	case "builtin":
		for _, f := range tengo.GetAllBuiltinFunctions() {
			if f.Name == s.Name {
				return f
			}
		}
		return tengo.UndefinedValue
	case "userfn":
		return &tengo.UserFunction{Name: s.Name, Value: func(args ...tengo.Object) (tengo.Object, error) {
			return &tengo.Int{Value: int64(len(args))}, nil
		}}
	}
	return tengo.UndefinedValue
}
