// Package tv has helpers over tengo runtime values: a nil-safe structural
// comparer and describer (maps unordered, NaN equal to NaN, -0 distinct from
// +0, mutable and immutable containers distinct), and rapid generators.
package tv

import (
	"fmt"
	"math"
	"sort"
	"strconv"
	"strings"
	"time"

	"github.com/d5/tengo/v2"
	"pgregory.net/rapid"
)

const maxDepth = 64

// Describe renders a value with explicit type tags. Go-nil objects render as
// "<GO-NIL>". Deeper than maxDepth renders "<DEEP>" (cyclic values).
func Describe(o tengo.Object) string {
	var sb strings.Builder
	describe(&sb, o, 0)
	return sb.String()
}

func describe(sb *strings.Builder, o tengo.Object, d int) {
	if o == nil {
		sb.WriteString("<GO-NIL>")
		return
	}
	if d > maxDepth {
		sb.WriteString("<DEEP>")
		return
	}
	switch v := o.(type) {
	case *tengo.Int:
		fmt.Fprintf(sb, "int(%d)", v.Value)
	case *tengo.Float:
		if v.Value == 0 && math.Signbit(v.Value) {
			sb.WriteString("float(-0)")
		} else {
			fmt.Fprintf(sb, "float(%s)", strconv.FormatFloat(v.Value, 'g', -1, 64))
		}
	case *tengo.Char:
		fmt.Fprintf(sb, "char(%d)", v.Value)
	case *tengo.String:
		fmt.Fprintf(sb, "string(%q)", v.Value)
	case *tengo.Bytes:
		fmt.Fprintf(sb, "bytes(%q)", string(v.Value))
	case *tengo.Bool:
		if v.IsFalsy() {
			sb.WriteString("bool(false)")
		} else {
			sb.WriteString("bool(true)")
		}
	case *tengo.Undefined:
		sb.WriteString("undefined")
	case *tengo.Time:
		fmt.Fprintf(sb, "time(%d,%d,%s)", v.Value.Unix(), v.Value.Nanosecond(), v.Value.Location())
	case *tengo.Error:
		sb.WriteString("error(")
		describe(sb, v.Value, d+1)
		sb.WriteString(")")
	case *tengo.Array:
		describeSeq(sb, "array", v.Value, d)
	case *tengo.ImmutableArray:
		describeSeq(sb, "imm-array", v.Value, d)
	case *tengo.Map:
		describeMap(sb, "map", v.Value, d)
	case *tengo.ImmutableMap:
		describeMap(sb, "imm-map", v.Value, d)
	case *tengo.CompiledFunction:
		sb.WriteString("<function>")
	case *tengo.BuiltinFunction:
		sb.WriteString("<builtin:" + v.Name + ">")
	case *tengo.UserFunction:
		sb.WriteString("<user-function:" + v.Name + ">")
	default:
		fmt.Fprintf(sb, "<%T>", o)
	}
}

func describeSeq(sb *strings.Builder, tag string, xs []tengo.Object, d int) {
	sb.WriteString(tag + "[")
	for i, x := range xs {
		if i > 0 {
			sb.WriteString(", ")
		}
		describe(sb, x, d+1)
	}
	sb.WriteString("]")
}

func describeMap(sb *strings.Builder, tag string, m map[string]tengo.Object, d int) {
	keys := make([]string, 0, len(m))
	for k := range m {
		keys = append(keys, k)
	}
	sort.Strings(keys)
	sb.WriteString(tag + "{")
	for i, k := range keys {
		if i > 0 {
			sb.WriteString(", ")
		}
		fmt.Fprintf(sb, "%q: ", k)
		describe(sb, m[k], d+1)
	}
	sb.WriteString("}")
}

// Equal is structural equality: same type tag and same contents.
func Equal(a, b tengo.Object) bool { return Describe(a) == Describe(b) }

// HasNil reports whether a Go-nil Object is reachable from o.
func HasNil(o tengo.Object) bool { return strings.Contains(Describe(o), "<GO-NIL>") }

// ---------- generators ----------

// Ints with boundaries.
func GenInt64() *rapid.Generator[int64] {
	return rapid.OneOf(
		rapid.SampledFrom([]int64{0, 1, -1, 2, -2, 7, 10, 100, 255, 256, 65535, 65536,
			math.MaxInt32, math.MinInt32, math.MaxInt32 + 1, math.MaxInt64, math.MinInt64,
			math.MaxInt64 - 1, math.MinInt64 + 1, 1 << 53, 1<<53 + 1, 1<<53 - 1, -(1 << 53), -(1<<53 + 1),
			0x10FFFF, 0x110000, 0xD800, 0xDFFF, 'a', 'A', '0', ' ', 0x7f, 0x80, 0xe9, 0x4e16}),
		rapid.Int64Range(-20, 20),
		rapid.Int64Range(-100000, 100000),
		rapid.Int64(),
	)
}

// Floats incl. specials.
func GenFloat64(finite bool) *rapid.Generator[float64] {
	specials := []float64{0, math.Copysign(0, -1), 1, -1, 0.5, -0.5, 1.5, 2, 10, 100, 0.1, 1e-5, 1e-6, 1e-7, 1e20, 1e21,
		1e22, 1e100, -1e20, -1e21, 123456789, 1.0 / 3, math.MaxFloat64, -math.MaxFloat64, math.SmallestNonzeroFloat64,
		-math.SmallestNonzeroFloat64, 2.2250738585072014e-308, float64(1 << 53), float64(1<<53 + 2), 9223372036854775808.0,
		-9223372036854775808.0, 9223372036854774784.0, 4294967296, 1e15, 1e16, 1e17, 123456.789e3, 3.14159, 2.5e-10}
	if !finite {
		specials = append(specials, math.NaN(), math.Inf(1), math.Inf(-1))
	}
	any := rapid.Float64()
	if finite {
		any = rapid.Float64().Filter(func(f float64) bool { return !math.IsNaN(f) && !math.IsInf(f, 0) })
	}
	return rapid.OneOf(
		rapid.SampledFrom(specials),
		rapid.Map(rapid.Int64Range(-1000, 1000), func(i int64) float64 { return float64(i) }),
		rapid.Map(rapid.Int64Range(-100000, 100000), func(i int64) float64 { return float64(i) / 64 }),
		rapid.Map(rapid.Int64(), func(i int64) float64 { return float64(i) }),
		any,
	)
}

var stringPool = []string{"", "a", "b", "ab", "abc", "hello world", "A", " ", "  x ", "0", "1", "12", " 12", "-7", "1e3",
	"0x10", "true", "false", "3.5", "NaN", "é", "日本語", "a\x00b", "\n", "\t\r\n", "\"q\"", "back\\slash", "`raw`", "/",
	"  ", "\U0001F600", "<&>", "value", "\x7f", "%d", "%", "κόσμε", "a,b,c", "x=1"}

var badUTF8 = []string{"\xff", "a\xffb", "\xc3", "\xe2\x82", "\xed\xa0\x80", "\xf4\x90\x80\x80", "\xc0\xaf", "ok\x80"}

// Strings; valid UTF-8 only when validOnly.
func GenString(validOnly bool) *rapid.Generator[string] {
	gens := []*rapid.Generator[string]{
		rapid.SampledFrom(stringPool),
		rapid.StringOfN(rapid.RuneFrom([]rune("abAB 01.,é日\"\\\n\x00\x1f<\U0001F600")), 0, 12, -1),
		rapid.StringN(0, 20, 60),
	}
	if !validOnly {
		gens = append(gens, rapid.SampledFrom(badUTF8),
			rapid.Map(rapid.SliceOfN(rapid.Byte(), 0, 10), func(b []byte) string { return string(b) }))
	}
	return rapid.OneOf(gens...)
}

func GenBytes() *rapid.Generator[[]byte] {
	return rapid.OneOf(
		rapid.Map(GenString(false), func(s string) []byte { return []byte(s) }),
		rapid.SliceOfN(rapid.Byte(), 0, 16),
	)
}

func GenRune() *rapid.Generator[rune] {
	return rapid.OneOf(
		rapid.SampledFrom([]rune{0, 'a', 'b', 'A', 'z', '0', '9', ' ', '\n', 0x7f, 0x80, 0xe9, 0x4e16, 0x10FFFF, 0xD800, 0xDFFF, 0xFFFD,
			0x110000, -1, math.MaxInt32, math.MinInt32, 0x1F600}),
		rapid.Int32Range(0, 127),
		rapid.Int32Range(0, 0x10FFFF),
		rapid.Int32(),
	)
}

var zones = []*time.Location{time.UTC, time.FixedZone("P5", 5*3600), time.FixedZone("M330", -(3*3600 + 1800))}

func GenTime() *rapid.Generator[time.Time] {
	return rapid.Custom(func(t *rapid.T) time.Time {
		switch rapid.IntRange(0, 5).Draw(t, "tk") {
		case 0:
			return time.Time{}
		case 1:
			return time.Unix(0, 0).In(zones[rapid.IntRange(0, len(zones)-1).Draw(t, "z")])
		default:
			sec := rapid.Int64Range(-62135596800, 95617584000).Draw(t, "sec") // years 1..5000
			if rapid.Bool().Draw(t, "near") {
				sec = rapid.Int64Range(1500000000, 1500000010).Draw(t, "sec2")
			}
			ns := rapid.SampledFrom([]int64{0, 0, 1, 999999999, 500000000, 123456789}).Draw(t, "ns")
			return time.Unix(sec, ns).In(zones[rapid.IntRange(0, len(zones)-1).Draw(t, "z")])
		}
	})
}

// Opts selects which kinds GenObject may produce.
type Opts struct {
	JSONOnly   bool // int, finite float, valid string, bool, undefined, array, map
	NoFuncs    bool
	NoErrors   bool
	NoTime     bool
	NoImm      bool
	ValidUTF8  bool
	FiniteOnly bool
	MaxDepth   int
	MaxLen     int
}

var builtinNames = []string{"len", "copy", "append", "string", "int", "is_int", "format", "type_name"}

// GenObject generates a tengo value tree (no sharing, no cycles).
func GenObject(o Opts) *rapid.Generator[tengo.Object] {
	if o.MaxDepth == 0 {
		o.MaxDepth = 3
	}
	if o.MaxLen == 0 {
		o.MaxLen = 4
	}
	return rapid.Custom(func(t *rapid.T) tengo.Object { return genObject(t, o, o.MaxDepth) })
}

func genObject(t *rapid.T, o Opts, depth int) tengo.Object {
	kinds := []string{"int", "float", "string", "bool", "undefined"}
	if !o.JSONOnly {
		kinds = append(kinds, "char", "bytes")
		if !o.NoTime {
			kinds = append(kinds, "time")
		}
		if !o.NoFuncs {
			kinds = append(kinds, "builtin", "userfn")
		}
	}
	if depth > 0 {
		kinds = append(kinds, "array", "map", "array", "map")
		if !o.JSONOnly && !o.NoErrors {
			kinds = append(kinds, "error")
		}
		if !o.NoImm {
			kinds = append(kinds, "imm-array", "imm-map")
		}
	}
	k := rapid.SampledFrom(kinds).Draw(t, "kind")
	switch k {
	case "int":
		return &tengo.Int{Value: GenInt64().Draw(t, "i")}
	case "float":
		return &tengo.Float{Value: GenFloat64(o.JSONOnly || o.FiniteOnly).Draw(t, "f")}
	case "string":
		return &tengo.String{Value: GenString(o.JSONOnly || o.ValidUTF8).Draw(t, "s")}
	case "bool":
		if rapid.Bool().Draw(t, "b") {
			return tengo.TrueValue
		}
		return tengo.FalseValue
	case "undefined":
		return tengo.UndefinedValue
	case "char":
		return &tengo.Char{Value: GenRune().Draw(t, "c")}
	case "bytes":
		return &tengo.Bytes{Value: GenBytes().Draw(t, "by")}
	case "time":
		return &tengo.Time{Value: GenTime().Draw(t, "tm")}
	case "builtin":
		name := rapid.SampledFrom(builtinNames).Draw(t, "bn")
		for _, f := range tengo.GetAllBuiltinFunctions() {
			if f.Name == name {
				return f
			}
		}
		return tengo.UndefinedValue
	case "userfn":
		return &tengo.UserFunction{Name: "uf", Value: func(args ...tengo.Object) (tengo.Object, error) {
			return &tengo.Int{Value: int64(len(args))}, nil
		}}
	case "error":
		return &tengo.Error{Value: genObject(t, o, depth-1)}
	case "array", "imm-array":
		n := rapid.IntRange(0, o.MaxLen).Draw(t, "n")
		xs := make([]tengo.Object, 0, n)
		for i := 0; i < n; i++ {
			xs = append(xs, genObject(t, o, depth-1))
		}
		if k == "array" {
			return &tengo.Array{Value: xs}
		}
		return &tengo.ImmutableArray{Value: xs}
	default: // map, imm-map
		n := rapid.IntRange(0, o.MaxLen).Draw(t, "n")
		m := make(map[string]tengo.Object, n)
		for i := 0; i < n; i++ {
			key := GenString(o.JSONOnly || o.ValidUTF8).Draw(t, "key")
			m[key] = genObject(t, o, depth-1)
		}
		if k == "map" {
			return &tengo.Map{Value: m}
		}
		return &tengo.ImmutableMap{Value: m}
	}
}
